/-
  Line-protocol driver for C19 (ipmitool back-end).

  Strings travel as comma-separated code points (`-` = empty string), byte lists as hex.

    words <str>                                   -> ok <n> <w>* R <fd:fd>* | expands | syntaxError | unsupported
    lan <var> <path> <iface> <host> <port> <level> <cipher> <auth> <target> <lun> <netfn> <rawhex>
    open <var> <path> <iface> <target> <lun> <netfn> <rawhex>
    serial <var> <path> <iface> <port> <baud> <target> <lun> <netfn> <rawhex>
    ping <var> <path> <iface> <host> <port> <level> <cipher> <auth>          -> ok <str> | <error tag>      (Model)
    xlan <path> <iface> <host> <port> <level> <cipher> <auth> <target> <lun> <netfn> <rawhex>
    xopen … / xserial … / xping …  (same operands, no <var>)   -> ok <n> <w>* | none           (Spec argv)
    recv <rc> <str>                               -> ok <hex> | <error tag>                 (Model)
    print <hex> | toline <ch> <nf> <lun> <cmd> | ccline <ch> <nf> <lun> <cmd> <cc> <str>    -> <str> (Spec)

    var    ::= four of 0/1: escape, cipherNotNone, depth1, pingOpts
    cipher ::= N | T<str> | F<str>
    auth   ::= N | P<user>/<pass> | O<n>
    target ::= N | A<addr> | R<addr>:<rq>.<rs>.<ch>;…   (R<addr>: = empty routing list)
-/
import PyIpmi.Base.Proto
import PyIpmi.Model.Ipmitool
import PyIpmi.Spec.Sh
import PyIpmi.Spec.IpmitoolPrint
open PyIpmi PyIpmi.Proto

namespace C19
open PyIpmi.Model.Ipmitool

def pStr (s : String) : Option (List Nat) := parseNatList s
def sStr (s : List Nat) : String := natList s

def pVar (s : String) : Option Variant :=
  match s.toList with
  | [a, b, c, d] => some ⟨a == '1', b == '1', c == '1', d == '1'⟩
  | _ => none

def pCipher (s : String) : Option Cipher :=
  if s == "N" then some .none
  else if s.startsWith "T" then (pStr (s.drop 1).toString).map (.val true)
  else if s.startsWith "F" then (pStr (s.drop 1).toString).map (.val false)
  else none

def pAuth (s : String) : Option Auth :=
  if s == "N" then some .none
  else if s.startsWith "O" then (s.drop 1).toString.toNat?.map .other
  else if s.startsWith "P" then
    match (s.drop 1).toString.splitOn "/" with
    | [u, p] => do some (.password (← pStr u) (← pStr p))
    | _ => none
  else none

def pHop (s : String) : Option Hop :=
  match s.splitOn "." with
  | [a, b, c] => do some ⟨← a.toNat?, ← b.toNat?, ← c.toNat?⟩
  | _ => none

def pTarget (s : String) : Option Target :=
  if s == "N" then some .none
  else if s.startsWith "A" then (s.drop 1).toString.toNat?.map (.mk none)
  else if s.startsWith "R" then
    match (s.drop 1).toString.splitOn ":" with
    | [a, hops] => do
      let a ← a.toNat?
      let hs ← if hops == "" then some [] else (hops.splitOn ";").mapM pHop
      some (.mk (some hs) a)
    | _ => none
  else none

def showOut (o : Outcome (List Nat)) : String :=
  match o with
  | .ok s => "ok " ++ sStr s
  | e => e.tag

def showBytes (o : Outcome (List Nat)) : String :=
  match o with
  | .ok s => "ok " ++ toHex s
  | e => e.tag

def showWords (r : Spec.Sh.Result) : String :=
  match r with
  | .ok argv redirs =>
    s!"ok {argv.length} " ++ " ".intercalate (argv.map sStr) ++ " R"
      ++ String.join (redirs.map fun (a, b) => s!" {a}:{b}")
  | .expands => "expands"
  | .syntaxError => "syntaxError"
  | .unsupported => "unsupported"

def showArgv (o : Option (List (List Nat))) : String :=
  match o with
  | some argv => s!"ok {argv.length} " ++ " ".intercalate (argv.map sStr)
  | none => "none"

def handle (line : String) : String :=
  match tokens line with
  | ["ping"] => "pong"
  | ["words", s] =>
    match pStr s with
    | some s => showWords (Spec.Sh.words s)
    | none => "bad-op"
  | ["lan", v, path, iface, host, port, level, cipher, auth, target, lun, netfn, raw] =>
    match pVar v, pStr path, pStr iface, pStr host, pStr port, level.toNat?, pCipher cipher, pAuth auth,
          pTarget target, lun.toNat?, netfn.toNat?, ofHex raw with
    | some v, some path, some iface, some host, some port, some level, some cipher, some auth,
      some target, some lun, some netfn, some raw =>
      showOut (buildLan v ⟨path, iface, host, port, level, cipher, auth⟩ target lun netfn raw)
    | _, _, _, _, _, _, _, _, _, _, _, _ => "bad-op"
  | ["open", v, path, iface, target, lun, netfn, raw] =>
    match pVar v, pStr path, pStr iface, pTarget target, lun.toNat?, netfn.toNat?, ofHex raw with
    | some v, some path, some iface, some target, some lun, some netfn, some raw =>
      showOut (buildOpen v path iface target lun netfn raw)
    | _, _, _, _, _, _, _ => "bad-op"
  | ["serial", v, path, iface, port, baud, target, lun, netfn, raw] =>
    match pVar v, pStr path, pStr iface, pStr port, pStr baud, pTarget target, lun.toNat?, netfn.toNat?,
          ofHex raw with
    | some v, some path, some iface, some port, some baud, some target, some lun, some netfn, some raw =>
      showOut (buildSerial v path iface port baud target lun netfn raw)
    | _, _, _, _, _, _, _, _, _ => "bad-op"
  | ["ping", v, path, iface, host, port, level, cipher, auth] =>
    match pVar v, pStr path, pStr iface, pStr host, pStr port, level.toNat?, pCipher cipher, pAuth auth with
    | some v, some path, some iface, some host, some port, some level, some cipher, some auth =>
      showOut (buildPing v path iface host port level cipher auth)
    | _, _, _, _, _, _, _, _ => "bad-op"
  | ["xlan", path, iface, host, port, level, cipher, auth, target, lun, netfn, raw] =>
    match pStr path, pStr iface, pStr host, pStr port, level.toNat?, pCipher cipher, pAuth auth,
          pTarget target, lun.toNat?, netfn.toNat?, ofHex raw with
    | some path, some iface, some host, some port, some level, some cipher, some auth,
      some target, some lun, some netfn, some raw =>
      match (Lan.toSpec ⟨path, iface, host, port, level, cipher, auth⟩) with
      | some c => showArgv (Spec.Ipmitool.lanArgv c target.toSpec lun netfn raw)
      | none => "none"
    | _, _, _, _, _, _, _, _, _, _, _ => "bad-op"
  | ["xopen", path, iface, target, lun, netfn, raw] =>
    match pStr path, pStr iface, pTarget target, lun.toNat?, netfn.toNat?, ofHex raw with
    | some path, some iface, some target, some lun, some netfn, some raw =>
      showArgv (Spec.Ipmitool.openArgv path iface (target.toSpec) lun netfn raw)
    | _, _, _, _, _, _ => "bad-op"
  | ["xserial", path, iface, port, baud, target, lun, netfn, raw] =>
    match pStr path, pStr iface, pStr port, pStr baud, pTarget target, lun.toNat?, netfn.toNat?, ofHex raw with
    | some path, some iface, some port, some baud, some target, some lun, some netfn, some raw =>
      showArgv (Spec.Ipmitool.serialArgv path iface port baud (target.toSpec) lun netfn raw)
    | _, _, _, _, _, _, _, _ => "bad-op"
  | ["xping", path, iface, host, port, level, cipher, auth] =>
    -- the spelled-out form (`-L` always); the other admitted form differs only for the default level
    match pStr path, pStr iface, pStr host, pStr port, level.toNat?, pCipher cipher, pAuth auth with
    | some path, some iface, some host, some port, some level, some cipher, some auth =>
      match auth.toSpec with
      | some cr => showArgv (Spec.Ipmitool.pingArgv true path iface host port level cipher.toSpec cr)
      | none => "none"
    | _, _, _, _, _, _, _ => "bad-op"
  | ["recv", rc, out] =>
    match rc.toNat?, pStr out with
    | some rc, some out => showBytes (recv out rc)
    | _, _ => "bad-op"
  | ["print", h] =>
    match ofHex h with
    | some bs => sStr (Spec.Ipmitool.printRaw bs)
    | none => "bad-op"
  | ["toline", ch, nf, lun, cmd] =>
    match ch.toNat?, nf.toNat?, lun.toNat?, cmd.toNat? with
    | some ch, some nf, some lun, some cmd => sStr (Spec.Ipmitool.timeoutLine ch nf lun cmd)
    | _, _, _, _ => "bad-op"
  | ["ccline", ch, nf, lun, cmd, cc, text] =>
    match ch.toNat?, nf.toNat?, lun.toNat?, cmd.toNat?, cc.toNat?, pStr text with
    | some ch, some nf, some lun, some cmd, some cc, some text =>
      sStr (Spec.Ipmitool.ccLine ch nf lun cmd cc text)
    | _, _, _, _, _, _ => "bad-op"
  | _ => "bad-op"

end C19

def main : IO Unit := do
  loop (← IO.getStdin) (← IO.getStdout) C19.handle
