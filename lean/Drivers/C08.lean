/-
  Line-protocol driver for C08 (interaction programs under completion-code faults).

    ping                                   -> pong
    info                                   -> <number of table entries>
    accept <op> <trace>                    -> yes <decisions> | no
        does the generated skeleton of operation <op> admit this sequence of request
        classes (registry indices; `-` = none)?
    run <op> <trace> <faults>              -> <tag> <nreq> | no-match
        replay the skeleton along the decisions that produce <trace>, against a device that
        answers OK except at the faulted positions; <faults> = `-` | k:c,k:c,…
    fru <storehex> <off|-> <count|-> <faults>      -> ok <hex> <nreq> | <tag> <nreq>
    fruarea <storehex> <off> <faults>              -> ok <hex> <nreq> | <tag> <nreq>      (fru._read_fru_area)
    clear <budget> <faults>                        -> <tag> <nreq>
    andwait <strict 0|1> <status 0|1|2> <polls> <faults>            -> <tag> <nreq>
    upload <strict 0|1> <nblocks> <status 0|1|2> <polls> <faults>   -> <tag> <nreq>
        strict: 0 = the wait as shipped, 1 = intended (Model/ProgHpm.lean); status: what Get upgrade
        status reports as last completion code: 0 = 00h, 1 = 80h for ever, 2 = 82h (the command failed)
    chunk <budget> <faults>                        -> <tag> <nreq>
    props <strict 0|1> <faults>                    -> ok <items> <nreq> | <tag> <nreq>
    chanauth <hasMethod 0|1> <faults>              -> <tag> <nreq>
  The SEL / SDR operations (Model/ProgOps.lean) on the scripted device
  <dev> = <reservation id> <sel records> <sdr records>,  records = `-` | id:hex;id:hex;…
  answers:  <tag> <value> | <request trace>     (requests as cmd.field.field…, `-` = none)
    selentry <dev> <res> <rid> <faults>            value: <hex> <next>
    selentries <dev> <fuel> <faults>               value: <hex>,<hex>,…
    getclear <dev> <rid> <fuel> <faults>           value: <hex>
    sdr <dev> <res|-> <rid> <faults>               value: <next> <hex>
    sdrlist <dev> <fuel> <faults>                  value: <next>:<hex>,…
    raw <faults>                                   -> ok <cc> 1        (primitive: the code is handed over)
    cover <op>                                     -> skeleton | primitive | transport | leaf:<model> |
                                                      composite | asShipped | none
        how Props/C08.lean's `table_covered` covers entry <op> (the same function the theorem evaluates)
-/
import PyIpmi.Base.Proto
import PyIpmi.Model.Prog
import PyIpmi.Model.ProgMore
import PyIpmi.Model.ProgOps
import PyIpmi.Model.ProgHpm
import PyIpmi.Spec.FaultDevice
import PyIpmi.Gen.ApiShapes
import PyIpmi.Lemmas.ProgTable
open PyIpmi PyIpmi.Proto PyIpmi.Prog PyIpmi.Prog.Ops PyIpmi.Spec.FaultDevice PyIpmi.Gen.ApiShapes

def parseFaults (s : String) : Option (List (Nat × Nat)) :=
  if s == "-" then some []
  else (s.splitOn ",").mapM fun kc =>
    match kc.splitOn ":" with
    | [k, c] => do let k ← k.toNat?; let c ← c.toNat?; pure (k, c)
    | _ => none

def faultMap (fs : List (Nat × Nat)) : Nat → Option Nat :=
  fun n => (fs.find? fun kc => kc.1 == n).map (·.2)

def resTag {α : Type} (r : Res α) : String := r.toOutcome.tag

def runOn {α : Type} (p : Prog α) (base : Req → Rsp) (fs : List (Nat × Nat)) : Res α × Nat :=
  let x := exec p (faultsDev base (faultMap fs)) 0
  (x.2.1, x.2.2.length)

/-- The device the handler models run against (mirrors harness/sim/fault_iface.py for the
commands involved): 1 area info, 2 read FRU, 3 reserve, 4 clear/initiate, 5 clear/status,
6 HPM action, 7 get upgrade status, 8 upload block, 9 get SDR chunk, 10 component property,
11 channel authentication capabilities. -/
def drvBase (store : List Nat) (busyHpm : Bool) : Req → Rsp := fun r =>
  match r.cmd with
  | 1 => ⟨0, [store.length % 256, store.length / 256, 0]⟩
  | 2 =>
    match r.data with
    | [_, lo, hi, n] =>
      let off := lo + 256 * hi
      if off ≥ store.length then ⟨0xC9, []⟩
      else
        let d := (store.drop off).take n
        ⟨0, d.length :: d⟩
    | _ => ⟨0xC7, []⟩
  | 3 => ⟨0, [0x0b, 0x1b]⟩
  | 4 => ⟨0, [1]⟩
  | 5 => ⟨0, [1]⟩
  | 7 => ⟨0, [0, 0x31, if busyHpm then 0x80 else 0, 0x32]⟩
  | 10 => ⟨0, 0 :: r.data⟩
  | _ => ⟨0, []⟩

def reserveP : Prog Nat :=
  (sendChecked ⟨3, []⟩).bind fun rsp => .done (rsp.data.headD 0 + 256 * (rsp.data.getD 1 0))

def statusBusy (rsp : Rsp) : Bool := rsp.data.getD 2 0 == 0x80

/-- Get upgrade status reports a final code other than 00h -/
def statusFailed (rsp : Rsp) : Bool := rsp.data.getD 2 0 != 0 && rsp.data.getD 2 0 != 0x80

/-- `drvBase` with the three HPM status scripts of harness/sim/fault_iface.py
(default / busyhpm / failhpm) -/
def drvHpm (mode : Nat) : Req → Rsp := fun r =>
  if r.cmd = 7 then ⟨0, [0, 0x31, if mode = 1 then 0x80 else if mode = 2 then 0x82 else 0, 0x32]⟩
  else drvBase [] false r

def mkRead (off n : Nat) : Req := ⟨2, [0, off % 256, off / 256, n]⟩

def back : List Nat := codes_fruBackoff

def parseRecs (s : String) : Option (List (Nat × List Nat)) :=
  if s == "-" then some []
  else (s.splitOn ";").mapM fun r =>
    match r.splitOn ":" with
    | [i, h] => do let i ← i.toNat?; let d ← ofHex h; pure (i, d)
    | _ => none

def parseScript (res sel sdr : String) : Option Script := do
  let r ← res.toNat?
  let a ← parseRecs sel
  let b ← parseRecs sdr
  pure ⟨a, b, r⟩

def showReq (r : Req) : String := ".".intercalate (toString r.cmd :: r.data.map toString)

def showTrace (t : List Req) : String := if t.isEmpty then "-" else ",".intercalate (t.map showReq)

/-- Outcome, value and request trace of a run under a fault list. -/
def runShow {α : Type} (p : Prog α) (base : Req → Rsp) (fs : List (Nat × Nat)) (val : α → String) : String :=
  let x := exec p (faultsDev base (faultMap fs)) 0
  match x.2.1 with
  | .ok a => s!"ok {val a} | {showTrace x.2.2}"
  | e => s!"{resTag e} | {showTrace x.2.2}"

def chunkCs : ChunkCodes := sdr_chunkCodes

def hexList (l : List (List Nat)) : String := if l.isEmpty then "-" else ",".intercalate (l.map toHex)

def handleOps (toks : List String) : Option String :=
  match toks with
  | ["selentry", r, a, b, res, rid, fs] => do
    let s ← parseScript r a b; let res ← res.toNat?; let rid ← rid.toNat?; let f ← parseFaults fs
    pure (runShow (opGetSelEntry selCfg res rid) s.base f fun v => s!"{toHex v.1} {v.2}")
  | ["selentries", r, a, b, fuel, fs] => do
    let s ← parseScript r a b; let fuel ← fuel.toNat?; let f ← parseFaults fs
    pure (runShow (opSelEntries selCfg sel_first sel_last fuel) s.base f fun v => hexList (v.map (·.1)))
  | ["getclear", r, a, b, rid, fuel, fs] => do
    let s ← parseScript r a b; let rid ← rid.toNat?; let fuel ← fuel.toNat?; let f ← parseFaults fs
    pure (runShow (opGetAndClear selCfg sel_cancel sel_budget fuel rid) s.base f toHex)
  | ["sdr", r, a, b, res, rid, fs] => do
    let s ← parseScript r a b; let rid ← rid.toNat?; let f ← parseFaults fs
    let resOpt ← (if res == "-" then some none else res.toNat?.map some)
    pure (runShow (opGetSdr sdrCfg chunkCs sdr_chunkRetry resOpt rid) s.base f fun v => s!"{v.1} {toHex v.2}")
  | ["sdrlist", r, a, b, fuel, fs] => do
    let s ← parseScript r a b; let fuel ← fuel.toNat?; let f ← parseFaults fs
    pure (runShow (opSdrEntries sdrCfg chunkCs sdr_chunkRetry sdr_first sdr_last fuel) s.base f fun v =>
      if v.isEmpty then "-" else ",".intercalate (v.map fun x => s!"{x.1}:{toHex x.2}"))
  | ["cover", op] => do
    let i ← op.toNat?
    let c ← (covers leafModels residue table)[i]?
    pure (match c with
      | some .skeleton => "skeleton"
      | some .primitive => "primitive"
      | some .transport => "transport"
      | some (.leaf m) => s!"leaf:{m}"
      | some .composite => "composite"
      | some .asShipped => "asShipped"
      | none => "none")
  | ["raw", fs] => do
    let f ← parseFaults fs
    let x := exec (sendRaw ⟨1, []⟩) (faultsDev (fun _ => ⟨0, []⟩) (faultMap f)) 0
    pure (match x.2.1 with
      | .ok rsp => s!"ok {rsp.cc} {x.2.2.length}"
      | e => s!"{resTag e} {x.2.2.length}")
  | _ => none

def handleC08 (line : String) : String :=
  match handleOps (tokens line) with
  | some r => r
  | none =>
  match tokens line with
  | ["ping"] => "pong"
  | ["info"] => toString table.length
  | ["accept", op, tr] =>
    match op.toNat?, parseNatList tr with
    | some i, some t =>
      match skTable[i]? with
      | some sk =>
        match Sk.accepting skTable 400 sk t with
        | some m => "yes " ++ (if m.choices.isEmpty then "-" else String.join (m.choices.map fun b => if b then "1" else "0"))
        | none => "no"
      | none => "bad-op"
    | _, _ => "bad-op"
  | ["run", op, tr, fs] =>
    match op.toNat?, parseNatList tr, parseFaults fs with
    | some i, some t, some f =>
      match skTable[i]? with
      | some sk =>
        match Sk.accepting skTable 400 sk t with
        | some m =>
          let p := Sk.run (Env.replay m.choices) skTable 400 sk {}
          let (r, n) := runOn p (fun _ => ⟨0, []⟩) f
          s!"{resTag r} {n}"
        | none => "no-match"
      | none => "bad-op"
    | _, _, _ => "bad-op"
  | ["fru", sh, off, cnt, fs] =>
    match ofHex sh, parseFaults fs with
    | some store, some f =>
      let base := drvBase store false
      let p : Option (Prog (List Nat)) :=
        if off == "-" then
          some (readFruData ⟨1, [0]⟩ (fun rsp => rsp.data.headD 0 + 256 * rsp.data.getD 1 0) mkRead
            (·.data.headD 0) (·.data.tail) back (2 * store.length + 40) 32)
        else
          match off.toNat?, cnt.toNat? with
          | some o, some c => some (readFru mkRead (·.data.headD 0) (·.data.tail) back (o + c) (2 * (o + c) + 40) o 32 [])
          | _, _ => none
      match p with
      | some p =>
        let (r, n) := runOn p base f
        match r with
        | .ok d => s!"ok {toHex d} {n}"
        | e => s!"{resTag e} {n}"
      | none => "bad-op"
    | _, _ => "bad-op"
  | ["fruarea", sh, off, fs] =>
    match ofHex sh, off.toNat?, parseFaults fs with
    | some store, some o, some f =>
      let p := readFruArea mkRead (·.data.headD 0) (·.data.tail) back 32 (2 * store.length + 80) o
      let (r, n) := runOn p (drvBase store false) f
      match r with
      | .ok d => s!"ok {toHex d} {n}"
      | e => s!"{resTag e} {n}"
    | _, _, _ => "bad-op"
  | ["clear", budget, fs] =>
    match budget.toNat?, parseFaults fs with
    | some b, some f =>
      let p := clearRepository 0xC5 reserveP (fun r => ⟨4, [r % 256, r / 256]⟩) (fun r => ⟨5, [r % 256, r / 256]⟩)
        (fun rsp => rsp.data.headD 0 % 16 == 0) b
      let (r, n) := runOn p (drvBase [] false) f
      s!"{resTag r} {n}"
    | _, _ => "bad-op"
  | ["andwait", strict, mode, polls, fs] =>
    match mode.toNat?, polls.toNat?, parseFaults fs with
    | some mode, some pl, some f =>
      let p := andWait 0x80 ((sendChecked ⟨6, []⟩).bind fun _ => .done ())
        (waitLongV (strict == "1") ⟨7, []⟩ statusBusy statusFailed pl)
      let (r, n) := runOn p (drvHpm mode) f
      s!"{resTag r} {n}"
    | _, _, _ => "bad-op"
  | ["upload", strict, nb, mode, polls, fs] =>
    match nb.toNat?, mode.toNat?, polls.toNat?, parseFaults fs with
    | some nb, some mode, some pl, some f =>
      let blocks := (List.range nb).map fun i => (⟨8, [i]⟩ : Req)
      let p := uploadBinary 0x80 (waitLongV (strict == "1") ⟨7, []⟩ statusBusy statusFailed pl) blocks
      let (r, n) := runOn p (drvHpm mode) f
      s!"{resTag r} {n}"
    | _, _, _, _ => "bad-op"
  | ["chunk", budget, fs] =>
    match budget.toNat?, parseFaults fs with
    | some b, some f =>
      let res := 0x0b + 256 * 0x1b
      let setRes (r : Nat) (q : Req) : Req := { q with data := (r % 256) :: (r / 256) :: q.data.drop 2 }
      let p := sdrChunk ⟨0xC5, 0xC3, 0xCE⟩ reserveP setRes b ⟨9, [res % 256, res / 256, 1, 0, 0, 5]⟩
      let (r, n) := runOn p (drvBase [] false) f
      s!"{resTag r} {n}"
    | _, _ => "bad-op"
  | ["props", strict, fs] =>
    match parseFaults fs with
    | some f =>
      let qs := (List.range 5).map fun i => (⟨10, [1, i]⟩ : Req)
      let p := componentProps (strict == "1") 0x83 (·.data) qs
      let (r, n) := runOn p (drvBase [] false) f
      match r with
      | .ok l => s!"ok {l.length} {n}"
      | e => s!"{resTag e} {n}"
    | none => "bad-op"
  | ["chanauth", has, fs] =>
    match parseFaults fs with
    | some f =>
      let (r, n) := runOn (channelAuthCaps (has == "1") ⟨11, [1, 4]⟩) (drvBase [] false) f
      s!"{resTag r} {n}"
    | none => "bad-op"
  | _ => "bad-op"

def main : IO Unit := do
  loop (← IO.getStdin) (← IO.getStdout) handleC08
