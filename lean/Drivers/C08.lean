/-
  Line-protocol driver for C08 (interaction programs under completion-code faults).

    ping                                   -> pong
    info                                   -> <number of table entries>
    accept <op> <trace>                    -> yes <decisions> | no
        does the generated skeleton of operation <op> admit this sequence of request
        classes (registry indices; `-` = none)?
    run <op> <trace> <faults>              -> <tag> <nreq> | no-match
        replay the skeleton along the decisions that produce <trace>, against a device that
        answers OK except at the faulted positions; <faults> = `-` | k:c,k:c,…
    fru <storehex> <off|-> <count|-> <faults>      -> ok <hex> <nreq> | <tag> <nreq>
    clear <budget> <faults>                        -> <tag> <nreq>
    andwait <busy 0|1> <polls> <faults>            -> <tag> <nreq>
    upload <nblocks> <busy 0|1> <polls> <faults>   -> <tag> <nreq>
    chunk <budget> <faults>                        -> <tag> <nreq>
    props <strict 0|1> <faults>                    -> ok <items> <nreq> | <tag> <nreq>
    chanauth <hasMethod 0|1> <faults>              -> <tag> <nreq>
-/
import PyIpmi.Base.Proto
import PyIpmi.Model.Prog
import PyIpmi.Spec.FaultDevice
import PyIpmi.Gen.ApiShapes
open PyIpmi PyIpmi.Proto PyIpmi.Prog PyIpmi.Spec.FaultDevice PyIpmi.Gen.ApiShapes

def parseFaults (s : String) : Option (List (Nat × Nat)) :=
  if s == "-" then some []
  else (s.splitOn ",").mapM fun kc =>
    match kc.splitOn ":" with
    | [k, c] => do let k ← k.toNat?; let c ← c.toNat?; pure (k, c)
    | _ => none

def faultMap (fs : List (Nat × Nat)) : Nat → Option Nat :=
  fun n => (fs.find? fun kc => kc.1 == n).map (·.2)

def resTag {α : Type} (r : Res α) : String := r.toOutcome.tag

def runOn {α : Type} (p : Prog α) (base : Req → Rsp) (fs : List (Nat × Nat)) : Res α × Nat :=
  let x := exec p (faultsDev base (faultMap fs)) 0
  (x.2.1, x.2.2.length)

/-- The device the handler models run against (mirrors harness/sim/fault_iface.py for the
commands involved): 1 area info, 2 read FRU, 3 reserve, 4 clear/initiate, 5 clear/status,
6 HPM action, 7 get upgrade status, 8 upload block, 9 get SDR chunk, 10 component property,
11 channel authentication capabilities. -/
def drvBase (store : List Nat) (busyHpm : Bool) : Req → Rsp := fun r =>
  match r.cmd with
  | 1 => ⟨0, [store.length % 256, store.length / 256, 0]⟩
  | 2 =>
    match r.data with
    | [_, lo, hi, n] =>
      let off := lo + 256 * hi
      if off ≥ store.length then ⟨0xC9, []⟩
      else
        let d := (store.drop off).take n
        ⟨0, d.length :: d⟩
    | _ => ⟨0xC7, []⟩
  | 3 => ⟨0, [0x0b, 0x1b]⟩
  | 4 => ⟨0, [1]⟩
  | 5 => ⟨0, [1]⟩
  | 7 => ⟨0, [0, 0x31, if busyHpm then 0x80 else 0, 0x32]⟩
  | 10 => ⟨0, 0 :: r.data⟩
  | _ => ⟨0, []⟩

def reserveP : Prog Nat :=
  (sendChecked ⟨3, []⟩).bind fun rsp => .done (rsp.data.headD 0 + 256 * (rsp.data.getD 1 0))

def statusBusy (rsp : Rsp) : Bool := rsp.data.getD 2 0 == 0x80

def mkRead (off n : Nat) : Req := ⟨2, [0, off % 256, off / 256, n]⟩

def back : List Nat := codes_fruBackoff

def handleC08 (line : String) : String :=
  match tokens line with
  | ["ping"] => "pong"
  | ["info"] => toString table.length
  | ["accept", op, tr] =>
    match op.toNat?, parseNatList tr with
    | some i, some t =>
      match skTable[i]? with
      | some sk =>
        match Sk.accepting skTable 400 sk t with
        | some m => "yes " ++ (if m.choices.isEmpty then "-" else String.join (m.choices.map fun b => if b then "1" else "0"))
        | none => "no"
      | none => "bad-op"
    | _, _ => "bad-op"
  | ["run", op, tr, fs] =>
    match op.toNat?, parseNatList tr, parseFaults fs with
    | some i, some t, some f =>
      match skTable[i]? with
      | some sk =>
        match Sk.accepting skTable 400 sk t with
        | some m =>
          let p := Sk.run (Env.replay m.choices) skTable 400 sk {}
          let (r, n) := runOn p (fun _ => ⟨0, []⟩) f
          s!"{resTag r} {n}"
        | none => "no-match"
      | none => "bad-op"
    | _, _, _ => "bad-op"
  | ["fru", sh, off, cnt, fs] =>
    match ofHex sh, parseFaults fs with
    | some store, some f =>
      let base := drvBase store false
      let p : Option (Prog (List Nat)) :=
        if off == "-" then
          some (readFruData ⟨1, [0]⟩ (fun rsp => rsp.data.headD 0 + 256 * rsp.data.getD 1 0) mkRead
            (·.data.headD 0) (·.data.tail) back (2 * store.length + 40) 32)
        else
          match off.toNat?, cnt.toNat? with
          | some o, some c => some (readFru mkRead (·.data.headD 0) (·.data.tail) back (o + c) (2 * (o + c) + 40) o 32 [])
          | _, _ => none
      match p with
      | some p =>
        let (r, n) := runOn p base f
        match r with
        | .ok d => s!"ok {toHex d} {n}"
        | e => s!"{resTag e} {n}"
      | none => "bad-op"
    | _, _ => "bad-op"
  | ["clear", budget, fs] =>
    match budget.toNat?, parseFaults fs with
    | some b, some f =>
      let p := clearRepository 0xC5 reserveP (fun r => ⟨4, [r % 256, r / 256]⟩) (fun r => ⟨5, [r % 256, r / 256]⟩)
        (fun rsp => rsp.data.headD 0 % 16 == 0) b
      let (r, n) := runOn p (drvBase [] false) f
      s!"{resTag r} {n}"
    | _, _ => "bad-op"
  | ["andwait", busy, polls, fs] =>
    match polls.toNat?, parseFaults fs with
    | some pl, some f =>
      let p := andWait 0x80 ((sendChecked ⟨6, []⟩).bind fun _ => .done ()) (waitLong ⟨7, []⟩ statusBusy pl)
      let (r, n) := runOn p (drvBase [] (busy == "1")) f
      s!"{resTag r} {n}"
    | _, _ => "bad-op"
  | ["upload", nb, busy, polls, fs] =>
    match nb.toNat?, polls.toNat?, parseFaults fs with
    | some nb, some pl, some f =>
      let blocks := (List.range nb).map fun i => (⟨8, [i]⟩ : Req)
      let p := uploadBinary 0x80 (waitLong ⟨7, []⟩ statusBusy pl) blocks
      let (r, n) := runOn p (drvBase [] (busy == "1")) f
      s!"{resTag r} {n}"
    | _, _, _ => "bad-op"
  | ["chunk", budget, fs] =>
    match budget.toNat?, parseFaults fs with
    | some b, some f =>
      let res := 0x0b + 256 * 0x1b
      let setRes (r : Nat) (q : Req) : Req := { q with data := (r % 256) :: (r / 256) :: q.data.drop 2 }
      let p := sdrChunk ⟨0xC5, 0xC3, 0xCE⟩ reserveP setRes b ⟨9, [res % 256, res / 256, 1, 0, 0, 5]⟩
      let (r, n) := runOn p (drvBase [] false) f
      s!"{resTag r} {n}"
    | _, _ => "bad-op"
  | ["props", strict, fs] =>
    match parseFaults fs with
    | some f =>
      let qs := (List.range 5).map fun i => (⟨10, [1, i]⟩ : Req)
      let p := componentProps (strict == "1") 0x83 (·.data) qs
      let (r, n) := runOn p (drvBase [] false) f
      match r with
      | .ok l => s!"ok {l.length} {n}"
      | e => s!"{resTag e} {n}"
    | none => "bad-op"
  | ["chanauth", has, fs] =>
    match parseFaults fs with
    | some f =>
      let (r, n) := runOn (channelAuthCaps (has == "1") ⟨11, [1, 4]⟩) (drvBase [] false) f
      s!"{resTag r} {n}"
    | none => "bad-op"
  | _ => "bad-op"

def main : IO Unit := do
  loop (← IO.getStdin) (← IO.getStdout) handleC08
