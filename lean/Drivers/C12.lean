/-
  Line-protocol driver for C12: the reference SEL device (Spec/SelDevice.lean) and the model of
  the SEL retrieval code (Model/SelXfer.lean) with the generated constants.

    dev <limit> <whole 0|1> <cur> <valid 0|1> <evs> <entry hex>*    set the device (kept as initial)  -> ok
         evs ::= - | slot,slot,…     slot ::= n | c | d | a<hex>
    x <cmd> <hex>                      one request to the current device   -> <hex>
    state                              current device                      -> <state>
    run entries                        get_sel_entries          outcome  ok <hex>,<hex>,… | -
    run get <rid> <res>                get_sel_entry                     ok <hex> <next>
    run gac <rid> <n>                  get_and_clear_sel_entry           ok <hex>
         n = `retry` (variant with a budget) / fuel (`while True`: out of fuel = py:nontermination)
         each run is on the INITIAL device                      -> <outcome> | <trace> | <state>
    snap                               the current device becomes the initial one (histories)   -> ok
    variant <floor|-> <budget|-> <empty-answer stop 0|1>
                                       variant of pyipmi/sel.py the runs model (default: as read from the source)
    decode <hex>                       SelEntry._from_response  -> ok <id> <type> <ts> <gen> <evm> <stype> <snum>
                                                                      <deassert 0|1> <etype> <hex event data> | DecodingError
    state ::= log=<hex,…> deleted=<hex:res,…> cur=<n> valid=<0|1> evs=<n left>
    cfg                                generated constants
-/
import PyIpmi.Base.Proto
import PyIpmi.Model.SelXfer
import PyIpmi.Spec.SelDevice
import PyIpmi.Gen.Loops10
open PyIpmi PyIpmi.Proto PyIpmi.FruXfer PyIpmi.SelXfer PyIpmi.Spec.Sel

structure St where
  init : SelDev
  cur : SelDev
  v : Variant

def parseSlot (s : String) : Option (Option Change) :=
  if s == "n" then some none
  else if s == "c" then some (some .cancel)
  else if s == "d" then some (some .delFirst)
  else if s.startsWith "a" then (ofHex (s.drop 1).toString).map fun e => some (.add e)
  else none

def parseEvs (s : String) : Option (List (Option Change)) :=
  if s == "-" then some [] else (s.splitOn ",").mapM parseSlot

def hexList (l : List (List Nat)) : String :=
  if l.isEmpty then "-" else ",".intercalate (l.map toHex)

def showState (d : SelDev) : String :=
  let del := if d.deleted.isEmpty then "-" else
    ",".intercalate (d.deleted.map fun (e, r) => s!"{toHex e}:{r}")
  s!"log={hexList d.log} deleted={del} cur={d.cur} valid={if d.valid then 1 else 0} evs={d.evs.length}"

def showTrace (t : List Xchg) : String :=
  if t.isEmpty then "-" else
    ",".intercalate (t.map fun x => s!"{x.req.cmd}:{toHex x.req.payload}>{toHex x.rsp}")

def finish {α} (r : Res SelDev α) (f : α → String) : String :=
  let o := match r.out with
    | .ok a => "ok " ++ f a
    | e => e.tag
  s!"{o} | {showTrace r.w.trace} | {showState r.w.dev}"

def cfg : PyIpmi.SelXfer.Cfg := PyIpmi.Gen.Loops10.selCfg

def runOp (v : Variant) (d : SelDev) (op : List String) : String :=
  let w : World SelDev := ⟨d, []⟩
  match op with
  | ["entries"] => finish (selEntries cfg v respond w) hexList
  | ["get", rid, res] =>
    match rid.toNat?, res.toNat? with
    | some rid, some res => finish (getSelEntry cfg v respond w rid res) fun (e, n) => s!"{toHex e} {n}"
    | _, _ => "bad-op"
  | ["gac", rid, fuel] =>
    match rid.toNat?, fuel.toNat? with
    | some rid, some fuel => finish (getAndClear cfg v respond fuel w rid) toHex
    | _, _ => "bad-op"
  | _ => "bad-op"

def showEntry (o : Outcome Entry) : String :=
  match o with
  | .ok a => s!"ok {a.recordId} {a.type} {a.timestamp} {a.generatorId} {a.evmRev} {a.sensorType} {a.sensorNumber} {if a.deassert then 1 else 0} {a.eventType} {toHex a.eventData}"
  | e => e.tag

def handle (s : St) (line : String) : St × String :=
  match tokens line with
  | ["ping"] => (s, "pong")
  | ["cfg"] => (s, s!"{cfg.entire} {cfg.full} {cfg.recLen} {cfg.step} {cfg.ccShrink} {cfg.ccCancel} {cfg.first} {cfg.last}")
  | "dev" :: limit :: whole :: cur :: valid :: evs :: entries =>
    match limit.toNat?, whole.toNat?, cur.toNat?, valid.toNat?, parseEvs evs, entries.mapM ofHex with
    | some l, some wh, some c, some v, some ev, some es =>
      let d : SelDev := ⟨es, l, wh != 0, c, v != 0, ev, []⟩
      ({ s with init := d, cur := d }, "ok")
    | _, _, _, _, _, _ => (s, "bad-op")
  | ["x", cmd, h] =>
    match cmd.toNat?, ofHex h with
    | some c, some p =>
      let r := respond s.cur c p
      ({ s with cur := r.1 }, toHex r.2)
    | _, _ => (s, "bad-op")
  | ["state"] => (s, showState s.cur)
  | "run" :: op => (s, runOp s.v s.init op)
  | ["snap"] => ({ s with init := s.cur }, "ok")
  | ["variant", f, b, e] =>
    match (if f == "-" then some none else f.toInt?.map some), (if b == "-" then some none else b.toNat?.map some),
        e.toNat? with
    | some f, some b, some e => ({ s with v := ⟨f, b, e != 0⟩ }, "ok")
    | _, _, _ => (s, "bad-op")
  | ["decode", h] =>
    match ofHex h with
    | some d => (s, showEntry (decodeEntry d))
    | none => (s, "bad-op")
  | _ => (s, "bad-op")

def main : IO Unit := do
  let d : SelDev := ⟨[], 0, false, 0, false, [], []⟩
  loopS (← IO.getStdin) (← IO.getStdout) handle ⟨d, d, PyIpmi.Gen.Loops10.selVariant⟩
