/-
  Line-protocol driver for C18 (HPM.1 image parser and firmware upload).

    consts                                  -> the generated constants this binary was built from
    spec <18 header nats> <oemhex> <digesthex> <rec>*
                                            -> <image hex> # <view demanded by Spec.HpmFormat>
        rec ::= s:<kind>:<comp> | u:<comp>:<maj>:<min>:<a0>:<a1>:<a2>:<a3>:<deschex>:<fwhex>
    parse <oemWholeRest 0|1> <descEscapes 0|1> <oemUnsetEmpty 0|1> <image hex>
                                            -> <view> | <error tag>              (Model)
    chunks <n> <hex>                        -> <hex> <hex> …                     (Model)
    upload <checked 0|1> <bs> <timeout> <interval> <lat> <retry> <binary hex> <plan>
    uploadr …same…      the repaired loop (an unanswered block is sent again, fixes/C18-5)
    judgeheard <bs> <plan> <binary hex> <trace…>   -> delivered=0|1 (Spec.HpmDevice.uploadDelivered)
                                            -> <tag> <now> <trace>               (Model × Spec device)
        plan ::= - | item,item,…   item ::= o | p<polls> | f<polls>.<final cc> | e<cc> | t
                                            (p<k> = f<k>.0; blocks beyond the list: o)
        trace ::= token*           token ::= B<num>:<hex> | S
    judge <bs> <plan> <binary hex> <trace>  -> exact=<0|1> data=<0|1> numbered=<0|1> polls=<0|1> waits=<0|1>  (Spec oracle)
    judgeabort <bs> <plan> <binary hex> <j> <trace> -> aborted=<0|1>
    judgelong <bs> <plan> <binary hex> <j> <polls> <trace> -> abortedlong=<0|1> sawfinal=<0|1>
-/
import PyIpmi.Base.Proto
import PyIpmi.Model.Hpm
open PyIpmi PyIpmi.Proto PyIpmi.Hpm
open PyIpmi.Spec.HpmFormat PyIpmi.Spec.HpmDevice

def showVersion (v : VersionView) : String :=
  s!"{v.major}.{v.minor}." ++ (match v.aux with | some a => toHex a | none => "n")

def showHeader (h : HeaderView) : String :=
  s!"H sig={toHex h.signature} fv={h.formatVersion} dev={h.deviceId} man={h.manufacturerId} prod={h.productId} " ++
  s!"time={h.time} cap={h.capabilities} comps={natList h.components} st={h.selftestTimeout} rb={h.rollbackTimeout} " ++
  s!"ina={h.inaccessibilityTimeout} ecr={showVersion h.earliest} fr={showVersion h.firmwareRevision} " ++
  s!"oemlen={h.oemLength} oem={if h.oemPresent then toHex h.oem else "MISSING"} chk={h.checksum} len={h.length}"

def showAction (a : ActionView) : String :=
  s!"A t={a.actionType} c={a.components} k={a.checksum} l={a.length}" ++
  (match a.upload with
   | some u => s!" U v={showVersion u.version} d={natList u.description} n={u.firmwareLength} fw={toHex u.firmware}"
   | none => "")

def showImage (i : ImageView) : String :=
  " | ".intercalate ([showHeader i.header] ++ i.actions.map showAction ++
    [s!"T tr={toHex i.trailer} ex={toHex i.expected}"])

def parseRec (s : String) : Option Record :=
  match s.splitOn ":" with
  | ["s", k, c] => do pure (.simple (← k.toNat?) (← c.toNat?))
  | ["u", c, maj, min, a0, a1, a2, a3, d, fw] => do
    pure (.upload (← c.toNat?) ⟨← maj.toNat?, ← min.toNat?, ← a0.toNat?, ← a1.toNat?, ← a2.toNat?, ← a3.toNat?⟩
      (← ofHex d) (← ofHex fw))
  | _ => none

def parsePlanItem (s : String) : Option Reply :=
  if s == "o" then some .ok
  else if s == "t" then some .noAnswer
  else if s.startsWith "p" then (s.drop 1).toNat?.map (Reply.inProgress · 0)
  else if s.startsWith "f" then
    match (s.drop 1).toString.splitOn "." with
    | [k, f] => do
      let f ← f.toNat?
      if f == 0x80 then none else pure (.inProgress (← k.toNat?) f)
    | _ => none
  else if s.startsWith "e" then (s.drop 1).toNat?.map .err
  else none

def parsePlan (s : String) : Option (Nat → Reply) :=
  if s == "-" then some (fun _ => .ok)
  else (s.splitOn ",").mapM parsePlanItem |>.map fun l => fun i => l.getD i .ok

def showEv : Ev → String
  | .block n d => s!"B{n}:{toHex d}"
  | .status => "S"

def parseEv (s : String) : Option Ev :=
  if s == "S" then some .status
  else if s.startsWith "B" then
    match (s.drop 1).toString.splitOn ":" with
    | [n, h] => do pure (.block (← n.toNat?) (← ofHex h))
    | _ => none
  else none

def b01 (b : Bool) : String := if b then "1" else "0"

def bit (s : String) : Option Bool := if s == "1" then some true else if s == "0" then some false else none

def consts : String :=
  let g := [Gen.Hpm.blockSize, Gen.Hpm.blockMask, Gen.Hpm.blockIncr, Gen.Hpm.firstBlock, Gen.Hpm.ccInProgress,
            Gen.Hpm.oemStart, Gen.Hpm.trailerLen, Gen.Hpm.upDataStart, Gen.Hpm.upLenExtra, Gen.Hpm.recHeaderLen,
            Gen.Hpm.defaultRetry, Gen.Hpm.defaultTimeoutTenths, Gen.Hpm.defaultIntervalTenths,
            Gen.Hpm.minorBcdMax, Gen.Hpm.minorUndefined]
  natList g

def handleC18 (line : String) : String :=
  match tokens line with
  | ["ping"] => "pong"
  | ["consts"] => consts
  | "spec" :: fv :: dev :: man :: prod :: tm :: cap :: comps :: st :: rb :: ina :: emaj :: emin ::
      fmaj :: fmin :: a0 :: a1 :: a2 :: a3 :: oem :: dig :: recs =>
    let r : Option String := do
      let h : Header := {
        formatVersion := ← fv.toNat?, deviceId := ← dev.toNat?, manufacturerId := ← man.toNat?,
        productId := ← prod.toNat?, time := ← tm.toNat?, capabilities := ← cap.toNat?,
        componentsMask := ← comps.toNat?, selftestTimeout := ← st.toNat?, rollbackTimeout := ← rb.toNat?,
        inaccessibilityTimeout := ← ina.toNat?,
        earliest := ⟨← emaj.toNat?, ← emin.toNat?, 0, 0, 0, 0⟩,
        firmwareRevision := ⟨← fmaj.toNat?, ← fmin.toNat?, ← a0.toNat?, ← a1.toNat?, ← a2.toNat?, ← a3.toNat?⟩,
        oem := ← ofHex oem }
      let d ← ofHex dig
      let rs ← recs.mapM parseRec
      let img : Image := ⟨h, rs⟩
      pure (toHex (encodeImage (fun _ => d) img) ++ " # " ++ showImage (img.view (fun _ => d)))
    r.getD "bad-op"
  | ["parse", ow, de, ou, h] =>
    match bit ow, bit de, bit ou, ofHex h with
    | some ow, some de, some ou, some bs =>
      match parseImage ⟨ow, de, ou⟩ bs with
      | .ok v => showImage v
      | e => e.tag
    | _, _, _, _ => "bad-op"
  | ["chunks", n, h] =>
    match n.toNat?, ofHex h with
    | some n, some bs => " ".intercalate ((chunks n bs).map toHex)
    | _, _ => "bad-op"
  | ["upload", ck, bs, timeout, interval, lat, retry, bin, plan] =>
    match bit ck, bs.toNat?, timeout.toNat?, interval.toNat?, lat.toNat?, parseInt retry, ofHex bin, parsePlan plan with
    | some ck, some bs, some timeout, some interval, some lat, some retry, some bin, some plan =>
      let (o, s) := uploadBinary ck bs timeout interval lat retry bin (Dev.init plan)
      s!"{o.tag} {s.now} " ++ " ".intercalate (s.dev.trace.map showEv)
    | _, _, _, _, _, _, _, _ => "bad-op"
  | ["uploadr", ck, bs, timeout, interval, lat, retry, bin, plan] =>
    match bit ck, bs.toNat?, timeout.toNat?, interval.toNat?, lat.toNat?, parseInt retry, ofHex bin, parsePlan plan with
    | some ck, some bs, some timeout, some interval, some lat, some retry, some bin, some plan =>
      let (o, s) := uploadBinaryR ck bs timeout interval lat retry bin (Dev.init plan)
      s!"{o.tag} {s.now} " ++ " ".intercalate (s.dev.trace.map showEv)
    | _, _, _, _, _, _, _, _ => "bad-op"
  | "judgeheard" :: bs :: plan :: bin :: trace =>
    match bs.toNat?, parsePlan plan, ofHex bin, trace.mapM parseEv with
    | some bs, some plan, some bin, some tr => s!"delivered={b01 (uploadDelivered bs plan bin tr)}"
    | _, _, _, _ => "bad-op"
  | "judge" :: bs :: plan :: bin :: trace =>
    match bs.toNat?, parsePlan plan, ofHex bin, trace.mapM parseEv with
    | some bs, some plan, some bin, some tr =>
      s!"exact={b01 (uploadExact bs plan bin tr)} data={b01 (decide (((blocksOf tr).map (·.2)).flatten = bin))} " ++
      s!"numbered={b01 (numberedFrom bs 0 (blocksOf tr))} polls={b01 (pollsOk plan 0 tr)} " ++
      s!"waits={b01 (waitsOk plan (blocksOf tr).length 0 tr)}"
    | _, _, _, _ => "bad-op"
  | "judgeabort" :: bs :: plan :: bin :: j :: trace =>
    match bs.toNat?, parsePlan plan, ofHex bin, j.toNat?, trace.mapM parseEv with
    | some bs, some plan, some bin, some j, some tr => s!"aborted={b01 (uploadAbortedAt bs plan bin j tr)}"
    | _, _, _, _, _ => "bad-op"
  | "judgelong" :: bs :: plan :: bin :: j :: k :: trace =>
    match bs.toNat?, parsePlan plan, ofHex bin, j.toNat?, k.toNat?, trace.mapM parseEv with
    | some bs, some plan, some bin, some j, some k, some tr =>
      s!"abortedlong={b01 (uploadAbortedLongAt bs plan bin j tr)} sawfinal={b01 (sawFinal k tr)}"
    | _, _, _, _, _, _ => "bad-op"
  | _ => "bad-op"

def main : IO Unit := do
  loop (← IO.getStdin) (← IO.getStdout) handleC18
