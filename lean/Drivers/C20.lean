/-
  Line-protocol driver for C20 (command-line tool model).

  A Python `str` travels as its code points `c,c,c` (`-` = empty string).

    count                          -> number of table entries
    selftest                       -> ok | <what is inconsistent in Gen/Cli.lean>
    name <idx>                     -> <str> of the entry's name
    int0 <s> | int10 <s>           -> ok <int> | ValueError
    lookup <s>*                    -> none | some <idx> <s>*
    main <s>*                      -> exit <n> | raise <Exc> | launch <idx> a=<s;..> i=<val> o=<k=v;..> t=<val> r=<val> s=<..>
    raw <s>*                       -> usage | req <lun> <netfn> <hex> | raise <Exc>
    hex <hexbytes>                 -> <str>           (what `raw` prints for these reply bytes)
    unhex <s>                      -> ok <hexbytes> | none       (Spec.parseHex)
    exit cc <n> | exit timeout | exit kbd | exit ok | exit py <Name> | exit err <Class|socket.timeout> <repr s> <str s>
                                   -> none | some <status> <str>
    mainend <exc> <exc>            -> returns | exits <status> <str> | raises <Name> <str>|~
                                      (what ipmi.open()/the handler raised, what ipmi.close() raised;
                                       <exc> = - | cc:<n> | lib:<Class>:<repr s>:<str s> | sock:<repr s>:<str s> | kbd | py:<Name>)
    probe                          -> closeInside=<0|1> escaping=<Class,…|-> int10=<entry:arg,…|-> optint10=<letter codes|->
                                      link=<0|1> idstr=<0|1> entity=<0|1> state=<0|1> conv=<0|1> arith=<0|1>
                                      catch=<cmd s>:<Name+…>;…   (conv / arith: catchesConversion /
                                      catchesArithmetic of all three sdr commands)
                                      (the executable hypotheses of the Props theorems, on today's source)
    argconvs <idx>                 -> k:0 | k:10 …  ( - if none)
    linraises <byte> <neg|zero|pos>      -> none | <Name>     (byte 24 of the record: bit 7 is masked off)
    speclin <code>                       -> formula|nonlinear|oem|reserved <conforming 0|1> <hasValue neg zero pos: 0|1 each>
    cell <cmd s> <code> <neg|zero|pos>   -> none | <Name>     (with today's handlers)
    sdrshow <type>                 -> none | <Name>           (today's handlers, today's sdr.py classes)
    linkstate <0|1>                -> none | <Name>
    showstate <0|1>                -> none | <Name>           (sdr_show's state line; 0 = reading/state unavailable)
    sensorread <cmd s> <type> <ownerlun> <number>
                                   -> none | req <lun> <netfn> <hex>   (the Get Sensor Reading of today's handler for such a record)
    sensorreads                    -> <cmd s>:<type>:<D|O|C<n>> …  ( - if none)   default=<n>
    entry <idx> | ientry <idx>     -> ok | AttributeError <ref> | TypeError <ref>   (shipped table | intended table)
    unresolved                     -> i:j i:j …  ( - if none)
    chassis <word>                 -> none | some <code>   (table entry "chassis power <word>" -> method -> option)
    speccode <word>                -> none | some <code>   (Spec table)
    ifopts <iface s> <opts s>|L    -> ValueError | ok k=v;…
-/
import PyIpmi.Base.Proto
import PyIpmi.Model.Cli
import PyIpmi.Spec.Cli
import PyIpmi.Gen.Cli
open PyIpmi PyIpmi.Cli PyIpmi.Proto

namespace C20

def showStr (s : Str) : String := natList s
def parseStr (t : String) : Option Str := parseNatList t

def showVal : Val → String
  | .none => "N"
  | .bool b => if b then "B1" else "B0"
  | .int i => s!"I{i}"
  | .str s => "S" ++ showStr s
  | .route a b c => s!"R{a}:{b}:{c}"
  | .route2 a b c d e => s!"R{a}:{b}:{c}:{d}:{e}"
  | .emptyList => "L"

def showOVal : OVal → String
  | .s v => "S" ++ showStr v
  | .b v => if v then "B1" else "B0"

def showDict (d : List (String × OVal)) : String :=
  if d.isEmpty then "-" else ";".intercalate (d.map fun (k, v) => k ++ "=" ++ showOVal v)

def showStrs (l : List Str) : String :=
  if l.isEmpty then "." else ";".intercalate (l.map showStr)

def showRes (pre : String) : Resolution → Nat → String
  | .ok, _ => pre
  | .attributeError, j => s!"AttributeError {j}"
  | .typeError, j => s!"TypeError {j}"

def entryRes (cmds : List Command) (i : Nat) : String :=
  match cmds[i]? with
  | none => "bad-op"
  | some c =>
    match (List.range c.refs.length).find? (fun j =>
        match c.refs[j]? with | some r => !refOk Gen.Cli.api r | none => false) with
    | none => "ok"
    | some j => match c.refs[j]? with
      | some r => showRes "ok" (resolveRef Gen.Cli.api r) j
      | none => "bad-op"

def chassisCode (word : String) : Option Nat := do
  let name := ofString ("chassis power " ++ word)
  let c ← Gen.Cli.commands.find? (fun c => c.name == name)
  match c.refs with
  | [r] => (Gen.Cli.chassisControl.find? (fun e => e.1 == r.name)).map (·.2)
  | _ => none

def optName (o : Option String) : String := match o with | some n => n | none => "none"

def parseSign (t : String) : Option Sign :=
  if t == "neg" then some .neg else if t == "zero" then some .zero else if t == "pos" then some .pos else none

/-- `-` | `cc:<n>` | `lib:<Class>:<repr>:<str>` | `sock:<repr>:<str>` | `kbd` | `py:<Name>` -/
def parseExc (t : String) : Option (Option (Raised × ExcInfo)) :=
  match t.splitOn ":" with
  | ["-"] => some none
  | ["cc", n] => n.toNat?.map fun c => some (.lib .completionCodeError, { cc := c })
  | ["lib", c, r, s] =>
    match LibErr.ofName c, parseStr r, parseStr s with
    | some c, some r, some s => some (some (.lib c, { repr := r, str := s }))
    | _, _, _ => none
  | ["sock", r, s] =>
    match parseStr r, parseStr s with
    | some r, some s => some (some (.socketTimeout, { repr := r, str := s }))
    | _, _ => none
  | ["kbd"] => some (some (.keyboardInterrupt, {}))
  | ["py", n] => some (some (.other n, {}))
  | _ => none

def showEnding : Ending → String
  | .returns => "returns"
  | .exits st m => s!"exits {st} {showStr m}"
  | .raises e none => s!"raises {e.name} ~"
  | .raises e (some m) => s!"raises {e.name} {showStr m}"

def commaOr (l : List String) : String := if l.isEmpty then "-" else ",".intercalate l

def probe : String :=
  let b (x : Bool) : String := if x then "1" else "0"
  let h := Gen.Cli.handlers
  s!"closeInside={b Gen.Cli.shape.closeInside} escaping={commaOr ((escaping Gen.Cli.exits).map Raised.name)} " ++
  s!"int10={commaOr ((base10Args Gen.Cli.argConvs).map fun (e, k) => s!"{e}:{k}")} " ++
  s!"optint10={commaOr ((base10Opts Gen.Cli.shape.rules).map toString)} " ++
  s!"link={b h.linkNoneGuard} idstr={b h.idStringGuard} entity={b h.entityGuard} state={b h.stateNoneGuard} " ++
  s!"conv={b (["sdr list", "sdr show", "sdr showall"].all fun c => catchesConversion (catchOf h c))} " ++
  s!"arith={b (["sdr list", "sdr show", "sdr showall"].all fun c => catchesArithmetic (catchOf h c))} " ++
  s!"bridge={b Gen.Cli.shape.bridge.isSome} pullupsNN={b Gen.Cli.aardvarkGuards.pullupsNotNone} " ++
  s!"powerNN={b Gen.Cli.aardvarkGuards.powerNotNone} " ++
  "catch=" ++ (if h.convCatch.isEmpty then "-" else
    ";".intercalate (h.convCatch.map fun (c, l) => showStr (ofString c) ++ ":" ++ (if l.isEmpty then "-" else "+".intercalate l)))

def selftest : String :=
  if Gen.Cli.shape.defaults.length != Gen.Cli.vars.length then "defaults/vars length"
  else if !(Gen.Cli.commands.all fun c => joinSp c.toks == c.name) then "toks/name"
  else if !(Gen.Cli.api.all fun s => s.name < Gen.Cli.names.length) then "api name ids"
  else "ok"

def handle (line : String) : String :=
  match tokens line with
  | ["ping"] => "pong"
  | ["count"] => toString Gen.Cli.commands.length
  | ["selftest"] => selftest
  | ["name", i] =>
    match i.toNat? >>= (Gen.Cli.commands[·]?) with
    | some c => showStr c.name
    | none => "bad-op"
  | ["int0", s] =>
    match parseStr s with
    | some s => (match pyInt0 s with | some v => s!"ok {v}" | none => "ValueError")
    | none => "bad-op"
  | ["int10", s] =>
    match parseStr s with
    | some s => (match pyInt10 s with | some v => s!"ok {v}" | none => "ValueError")
    | none => "bad-op"
  | "lookup" :: args =>
    match args.mapM parseStr with
    | none => "bad-op"
    | some a =>
      match lookup (nameTable Gen.Cli.commands) a with
      | none => "none"
      | some (i, rest) => s!"some {i} {showStrs rest}"
  | "main" :: args =>
    match args.mapM parseStr with
    | none => "bad-op"
    | some a =>
      match mainModel Gen.Cli.shape Gen.Cli.commands Gen.Cli.interfaces a with
      | .exit n => s!"exit {n}"
      | .raise e => s!"raise {e}"
      | .launch l =>
        let sess := match l.session with
          | none => "-"
          | some (h, p, u, pw, lv) => s!"{showVal h}/{showVal p}/{showVal u}/{showVal pw}/{lv}"
        s!"launch {l.entry} a={showStrs l.args} i={showVal l.iface} o={showDict l.ifaceOpts} t={showVal l.target} r={showVal l.routing} s={sess}"
  | "raw" :: args =>
    match args.mapM parseStr with
    | none => "bad-op"
    | some a =>
      match cmdRaw a with
      | .usage => "usage"
      | .request lun nf bs => s!"req {lun} {nf} {toHex bs}"
      | .raise e => s!"raise {e}"
  | ["hex", h] =>
    match ofHex h with
    | some bs => showStr (printHex bs)
    | none => "bad-op"
  | ["unhex", s] =>
    match parseStr s with
    | some s => (match Spec.Cli.parseHex s with | some bs => "ok " ++ toHex bs | none => "none")
    | none => "bad-op"
  | ["exit", "ok"] => "none"
  | "exit" :: rest =>
    let o : Option (Raised × ExcInfo) := match rest with
      | ["cc", n] => n.toNat?.map fun c => (.lib .completionCodeError, { cc := c })
      | ["timeout"] => some (.lib .ipmiTimeoutError, {})
      | ["kbd"] => some (.keyboardInterrupt, {})
      | ["py", n] => some (.other n, {})
      | ["err", c, r, s] =>
        match parseStr r, parseStr s with
        | some r, some s =>
          if c == "socket.timeout" then some (.socketTimeout, { repr := r, str := s })
          else (LibErr.ofName c).map fun c => (.lib c, { repr := r, str := s })
        | _, _ => none
      | _ => none
    match o with
    | none => "bad-op"
    | some (e, i) =>
      match exitOf Gen.Cli.exits e i with
      | none => "none"
      | some r => s!"some {r.status} {showStr r.message}"
  | ["mainend", b, c] =>
    match parseExc b, parseExc c with
    | some b, some c => showEnding (mainEnd Gen.Cli.shape.closeInside Gen.Cli.exits b c)
    | _, _ => "bad-op"
  | ["probe"] => probe
  | ["aardvark", p, w, f] =>
    let ob (t : String) : Option (Option Bool) :=
      if t == "N" then some none else if t == "1" then some (some true) else if t == "0" then some (some false) else none
    match ob p, ob w, ob f with
    | some p, some w, some f =>
      let sw : AdapterWrite → String
        | .pullups v => s!"i2c_pullups={if v then 1 else 0}"
        | .power v => s!"target_power={if v then 1 else 0}"
        | .bitrate k => s!"i2c_bitrate={k}"
      " ".intercalate ((aardvarkOpenWrites Gen.Cli.aardvarkGuards p w f).map sw)
    | _, _, _ => "bad-op"
  | ["argconvs", i] =>
    match i.toNat? with
    | none => "bad-op"
    | some i =>
      let l := Gen.Cli.argConvs.filter (·.entry == i)
      if l.isEmpty then "-" else " ".intercalate (l.map fun c => s!"{c.arg}:{if c.base0 then 0 else 10}")
  | ["linraises", c, sg] =>
    match c.toNat?, parseSign sg with
    | some c, some sg => optName (linRaises c sg)
    | _, _ => "bad-op"
  | ["speclin", c] =>
    match c.toNat? with
    | some c =>
      let b (x : Bool) : String := if x then "1" else "0"
      let k := match Spec.Cli.linClass c with
        | .formula _ => "formula" | .nonLinear => "nonlinear" | .oemNonLinear => "oem" | .reserved => "reserved"
      s!"{k} {b (Spec.Cli.linConforming c)} {b (Spec.Cli.hasValue c .neg)}{b (Spec.Cli.hasValue c .zero)}{b (Spec.Cli.hasValue c .pos)}"
    | none => "bad-op"
  | ["cell", cmd, c, sg] =>
    match parseStr cmd, c.toNat?, parseSign sg with
    | some cmd, some c, some sg => optName (cellRaises (catchOf Gen.Cli.handlers (toStr cmd)) c sg)
    | _, _, _ => "bad-op"
  | ["sdrshow", t] =>
    match t.toNat? with
    | some t =>
      let a := sdrAttrs Gen.Cli.sdrClasses Gen.Cli.sdrDefault t
      optName (sdrShowRaises Gen.Cli.handlers a.1 a.2)
    | none => "bad-op"
  | ["sensorread", cmd, t, l, n] =>
    match parseStr cmd, t.toNat?, l.toNat?, n.toNat? with
    | some cmd, some t, some l, some n =>
      match sensorReadOf Gen.Cli.sensorReads Gen.Cli.sensorReadDefaultLun (toStr cmd) t l n with
      | none => "none"
      | some (lun, nf, bs) => s!"req {lun} {nf} {toHex bs}"
    | _, _, _, _ => "bad-op"
  | ["sensorreads"] =>
    let one (r : SensorRead) : String :=
      showStr (ofString r.cmd) ++ s!":{r.recType}:" ++ (match r.lun with
        | .default => "D" | .ownerLun => "O" | .const n => s!"C{n}")
    (if Gen.Cli.sensorReads.isEmpty then "-" else " ".intercalate (Gen.Cli.sensorReads.map one))
      ++ s!" default={Gen.Cli.sensorReadDefaultLun}"
  | ["linkstate", x] => optName (linkStateRaises Gen.Cli.handlers (x == "1"))
  | ["showstate", x] => optName (sdrStateRaises Gen.Cli.handlers (x == "1"))
  | ["entry", i] =>
    match i.toNat? with
    | some i => entryRes Gen.Cli.commands i
    | none => "bad-op"
  | ["ientry", i] =>
    match i.toNat? with
    | some i => entryRes (intended Gen.Cli.names Gen.Cli.commands) i
    | none => "bad-op"
  | ["unresolved"] =>
    let u := unresolved Gen.Cli.api Gen.Cli.commands
    if u.isEmpty then "-" else " ".intercalate (u.map fun (i, j) => s!"{i}:{j}")
  | ["chassis", w] =>
    match chassisCode w with
    | some c => s!"some {c}"
    | none => "none"
  | ["speccode", w] =>
    match Spec.Cli.chassisPower.find? (fun e => e.1 == w) with
    | some e => s!"some {e.2.code}"
    | none => "none"
  | ["ifopts", i, o] =>
    match parseStr i, (if o == "L" then some Val.emptyList else (parseStr o).map Val.str) with
    | some i, some o =>
      match parseInterfaceOptions i o with
      | none => "ValueError"
      | some d => "ok " ++ showDict d
    | _, _ => "bad-op"
  | _ => "bad-op"

end C20

def main : IO Unit := do
  loop (← IO.getStdin) (← IO.getStdout) C20.handle
