/-
  Line-protocol driver for C20 (command-line tool model).

  A Python `str` travels as its code points `c,c,c` (`-` = empty string).

    count                          -> number of table entries
    selftest                       -> ok | <what is inconsistent in Gen/Cli.lean>
    name <idx>                     -> <str> of the entry's name
    int0 <s> | int10 <s>           -> ok <int> | ValueError
    lookup <s>*                    -> none | some <idx> <s>*
    main <s>*                      -> exit <n> | raise <Exc> | launch <idx> a=<s;..> i=<val> o=<k=v;..> t=<val> r=<val> s=<..>
    raw <s>*                       -> usage | req <lun> <netfn> <hex> | raise <Exc>
    hex <hexbytes>                 -> <str>           (what `raw` prints for these reply bytes)
    unhex <s>                      -> ok <hexbytes> | none       (Spec.parseHex)
    exit cc <n> | exit timeout | exit kbd | exit ok | exit py <Name>
                                   -> none | some <status> <str>
    entry <idx> | ientry <idx>     -> ok | AttributeError <ref> | TypeError <ref>   (shipped table | intended table)
    unresolved                     -> i:j i:j …  ( - if none)
    chassis <word>                 -> none | some <code>   (table entry "chassis power <word>" -> method -> option)
    speccode <word>                -> none | some <code>   (Spec table)
    ifopts <iface s> <opts s>|L    -> ValueError | ok k=v;…
-/
import PyIpmi.Base.Proto
import PyIpmi.Model.Cli
import PyIpmi.Spec.Cli
import PyIpmi.Gen.Cli
open PyIpmi PyIpmi.Cli PyIpmi.Proto

namespace C20

def showStr (s : Str) : String := natList s
def parseStr (t : String) : Option Str := parseNatList t

def showVal : Val → String
  | .none => "N"
  | .bool b => if b then "B1" else "B0"
  | .int i => s!"I{i}"
  | .str s => "S" ++ showStr s
  | .route a b c => s!"R{a}:{b}:{c}"
  | .emptyList => "L"

def showOVal : OVal → String
  | .s v => "S" ++ showStr v
  | .b v => if v then "B1" else "B0"

def showDict (d : List (String × OVal)) : String :=
  if d.isEmpty then "-" else ";".intercalate (d.map fun (k, v) => k ++ "=" ++ showOVal v)

def showStrs (l : List Str) : String :=
  if l.isEmpty then "." else ";".intercalate (l.map showStr)

def showRes (pre : String) : Resolution → Nat → String
  | .ok, _ => pre
  | .attributeError, j => s!"AttributeError {j}"
  | .typeError, j => s!"TypeError {j}"

def entryRes (cmds : List Command) (i : Nat) : String :=
  match cmds[i]? with
  | none => "bad-op"
  | some c =>
    match (List.range c.refs.length).find? (fun j =>
        match c.refs[j]? with | some r => !refOk Gen.Cli.api r | none => false) with
    | none => "ok"
    | some j => match c.refs[j]? with
      | some r => showRes "ok" (resolveRef Gen.Cli.api r) j
      | none => "bad-op"

def chassisCode (word : String) : Option Nat := do
  let name := ofString ("chassis power " ++ word)
  let c ← Gen.Cli.commands.find? (fun c => c.name == name)
  match c.refs with
  | [r] => (Gen.Cli.chassisControl.find? (fun e => e.1 == r.name)).map (·.2)
  | _ => none

def selftest : String :=
  if Gen.Cli.shape.defaults.length != Gen.Cli.vars.length then "defaults/vars length"
  else if !(Gen.Cli.commands.all fun c => joinSp c.toks == c.name) then "toks/name"
  else if !(Gen.Cli.api.all fun s => s.name < Gen.Cli.names.length) then "api name ids"
  else "ok"

def handle (line : String) : String :=
  match tokens line with
  | ["ping"] => "pong"
  | ["count"] => toString Gen.Cli.commands.length
  | ["selftest"] => selftest
  | ["name", i] =>
    match i.toNat? >>= (Gen.Cli.commands[·]?) with
    | some c => showStr c.name
    | none => "bad-op"
  | ["int0", s] =>
    match parseStr s with
    | some s => (match pyInt0 s with | some v => s!"ok {v}" | none => "ValueError")
    | none => "bad-op"
  | ["int10", s] =>
    match parseStr s with
    | some s => (match pyInt10 s with | some v => s!"ok {v}" | none => "ValueError")
    | none => "bad-op"
  | "lookup" :: args =>
    match args.mapM parseStr with
    | none => "bad-op"
    | some a =>
      match lookup (nameTable Gen.Cli.commands) a with
      | none => "none"
      | some (i, rest) => s!"some {i} {showStrs rest}"
  | "main" :: args =>
    match args.mapM parseStr with
    | none => "bad-op"
    | some a =>
      match mainModel Gen.Cli.shape Gen.Cli.commands Gen.Cli.interfaces a with
      | .exit n => s!"exit {n}"
      | .raise e => s!"raise {e}"
      | .launch l =>
        let sess := match l.session with
          | none => "-"
          | some (h, p, u, pw, lv) => s!"{showVal h}/{showVal p}/{showVal u}/{showVal pw}/{lv}"
        s!"launch {l.entry} a={showStrs l.args} i={showVal l.iface} o={showDict l.ifaceOpts} t={showVal l.target} r={showVal l.routing} s={sess}"
  | "raw" :: args =>
    match args.mapM parseStr with
    | none => "bad-op"
    | some a =>
      match cmdRaw a with
      | .usage => "usage"
      | .request lun nf bs => s!"req {lun} {nf} {toHex bs}"
      | .raise e => s!"raise {e}"
  | ["hex", h] =>
    match ofHex h with
    | some bs => showStr (printHex bs)
    | none => "bad-op"
  | ["unhex", s] =>
    match parseStr s with
    | some s => (match Spec.Cli.parseHex s with | some bs => "ok " ++ toHex bs | none => "none")
    | none => "bad-op"
  | "exit" :: rest =>
    let o : Option (Outcome Unit) := match rest with
      | ["cc", n] => n.toNat?.map .ccError
      | ["timeout"] => some .timeoutError
      | ["kbd"] => some (.pyError "KeyboardInterrupt")
      | ["ok"] => some (.ok ())
      | ["py", n] => some (.pyError n)
      | _ => none
    match o with
    | none => "bad-op"
    | some o =>
      match exitOf Gen.Cli.exits o with
      | none => "none"
      | some r => s!"some {r.status} {showStr r.message}"
  | ["entry", i] =>
    match i.toNat? with
    | some i => entryRes Gen.Cli.commands i
    | none => "bad-op"
  | ["ientry", i] =>
    match i.toNat? with
    | some i => entryRes (intended Gen.Cli.names Gen.Cli.commands) i
    | none => "bad-op"
  | ["unresolved"] =>
    let u := unresolved Gen.Cli.api Gen.Cli.commands
    if u.isEmpty then "-" else " ".intercalate (u.map fun (i, j) => s!"{i}:{j}")
  | ["chassis", w] =>
    match chassisCode w with
    | some c => s!"some {c}"
    | none => "none"
  | ["speccode", w] =>
    match Spec.Cli.chassisPower.find? (fun e => e.1 == w) with
    | some e => s!"some {e.2.code}"
    | none => "none"
  | ["ifopts", i, o] =>
    match parseStr i, (if o == "L" then some Val.emptyList else (parseStr o).map Val.str) with
    | some i, some o =>
      match parseInterfaceOptions i o with
      | none => "ValueError"
      | some d => "ok " ++ showDict d
    | _, _ => "bad-op"
  | _ => "bad-op"

end C20

def main : IO Unit := do
  loop (← IO.getStdin) (← IO.getStdout) C20.handle
