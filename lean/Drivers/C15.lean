/-
  Line-protocol driver for C15 (FRU inventory parsing).

    enc <I> <C> <B> <P> <M>          -> ok <hex> <cov> <view> | illformed | bad-op
         image description, see `parseImage`; <cov>: one digit per byte of the image:
         0 not covered by a checksum, 1 covered, 2 covered and an info-area length byte
    parse <vv> <kind> <hex>           -> ok <view> | <error tag>      Model.parseFru
         vv = eight flags (bcdBytesOnly, sixStrict, areaLenLax, devLenLax, picmgTypeOnly, fieldsLax, overlapLax,
         devOverlapLax), kind = b | a | l
    dev <vv> <hex>                    -> ok <view> | <error tag>      Model.parseFruDevice (hex = device storage)
    tl <vv> <kind> <hex>              -> ok <field> | <error tag>     Model.tlString
    area <vv> <kind> <c|b|p> <hex>    -> ok <slot> | <error tag>      Model.parseArea
    mr <vv> <hex>                     -> ok <slot> | <error tag>      Model.parseMulti
    hdr <hex>                         -> ok <header> | <error tag>    Model.parseHeader
    sums <hex>                        -> 0 | 1                        Spec.checksumsOk
    wf <hex>                          -> ok | sums | fields | layout  Spec.imageOk: the first of checksumsOk / fieldsOk /
                                                                      layoutOk that fails
    date <minutes>                    -> y m d h mi                   Spec.dateOfMinutes
-/
import PyIpmi.Base.Proto
import PyIpmi.Spec.FruFormat
import PyIpmi.Model.FruParse
import PyIpmi.Model.FruDevice
open PyIpmi PyIpmi.Fru PyIpmi.Proto

/-! ### printing views -/

def showField (f : FieldView) : String :=
  s!"{f.ftype}.{f.length}.{toHex f.raw}.{natList f.str}"

def showFields (sep : String) (l : List FieldView) : String :=
  if l.isEmpty then "-" else sep.intercalate (l.map showField)

def showArea (a : AreaView) : String :=
  s!"{a.version},{a.length},{a.b2},{a.minutes};{showFields ";" a.fields};{showFields "|" a.custom}"

def showSlot {α} (f : α → String) : Slot α → String
  | .absent => "n"
  | .empty => "e"
  | .parsed a => f a

def b01 (b : Bool) : String := if b then "1" else "0"

def showRec : RecView → String
  | .unknown t v e l raw => s!"U.{t}.{v}.{b01 e}.{l}.{toHex raw}"
  | .picmg t e l raw m p v => s!"P.{t}.{b01 e}.{l}.{toHex raw}.{m}.{p}.{v}"
  | .power t e l raw m p v c => s!"W.{t}.{b01 e}.{l}.{toHex raw}.{m}.{p}.{v}.{c}"

def showRecs (l : List RecView) : String :=
  if l.isEmpty then "-" else "|".intercalate (l.map showRec)

def showHeader (h : HeaderView) : String :=
  s!"{h.version},{h.internalOff},{h.chassisOff},{h.boardOff},{h.productOff},{h.multiOff}"

def showView (v : FruView) : String :=
  let h := match v.header with
    | none => "n"
    | some h => showHeader h
  s!"H:{h} C:{showSlot showArea v.chassis} B:{showSlot showArea v.board} P:{showSlot showArea v.product} M:{showSlot showRecs v.multi}"

def showOutcome {α} (f : α → String) (o : Outcome α) : String :=
  match o with
  | .ok a => "ok " ++ f a
  | e => e.tag

/-! ### parsing image descriptions

    I:n | I:<hex>
    C:n | C:<type>,<pad>;<f>;<f>;<customs>
    B:n | B:<lang>,<minutes>,<pad>;<f>×5;<customs>
    P:n | P:<lang>,<pad>;<f>×7;<customs>
    M:- | M:<rec>|<rec>…       rec = g.<type>.<hex> | p.<pid>.<ver>.<hex> | w.<ver>.<tenths>.<hex>
    f = b<hex> | d<hex> | s<hex> | t<hex>       customs = - | f|f|…
-/

def parseFieldTok (s : String) : Option Field := do
  let h ← ofHex (s.drop 1).toString
  if s.startsWith "b" then some (.binary h)
  else if s.startsWith "d" then some (.bcdPlus h)
  else if s.startsWith "s" then some (.ascii6 h)
  else if s.startsWith "t" then some (.text8 h)
  else none

def parseCustoms (s : String) : Option (List Field) :=
  if s == "-" then some [] else (s.splitOn "|").mapM parseFieldTok

def parseNats (s : String) : Option (List Nat) := (s.splitOn ",").mapM String.toNat?

def stripTag (tag s : String) : Option String :=
  if s.startsWith tag then some (s.drop tag.length).toString else none

def parseChassis (s : String) : Option (Option Chassis) := do
  let r ← stripTag "C:" s
  if r == "n" then return none
  match r.splitOn ";" with
  | [hd, f1, f2, cs] =>
    match ← parseNats hd with
    | [t, pad] => some (some ⟨t, ← parseFieldTok f1, ← parseFieldTok f2, ← parseCustoms cs, pad⟩)
    | _ => none
  | _ => none

def parseBoard (s : String) : Option (Option Board) := do
  let r ← stripTag "B:" s
  if r == "n" then return none
  match r.splitOn ";" with
  | [hd, f1, f2, f3, f4, f5, cs] =>
    match ← parseNats hd with
    | [lang, minutes, pad] =>
      some (some ⟨lang, minutes, ← parseFieldTok f1, ← parseFieldTok f2, ← parseFieldTok f3,
        ← parseFieldTok f4, ← parseFieldTok f5, ← parseCustoms cs, pad⟩)
    | _ => none
  | _ => none

def parseProduct (s : String) : Option (Option Product) := do
  let r ← stripTag "P:" s
  if r == "n" then return none
  match r.splitOn ";" with
  | [hd, f1, f2, f3, f4, f5, f6, f7, cs] =>
    match ← parseNats hd with
    | [lang, pad] =>
      some (some ⟨lang, ← parseFieldTok f1, ← parseFieldTok f2, ← parseFieldTok f3, ← parseFieldTok f4,
        ← parseFieldTok f5, ← parseFieldTok f6, ← parseFieldTok f7, ← parseCustoms cs, pad⟩)
    | _ => none
  | _ => none

def parseRecTok (s : String) : Option Record :=
  match s.splitOn "." with
  | ["g", t, h] => do some (.generic (← t.toNat?) (← ofHex h))
  | ["p", pid, ver, h] => do some (.picmg (← pid.toNat?) (← ver.toNat?) (← ofHex h))
  | ["w", ver, tenths, h] => do some (.power (← ver.toNat?) (← tenths.toNat?) (← ofHex h))
  | _ => none

def parseRecords (s : String) : Option (List Record) := do
  let r ← stripTag "M:" s
  if r == "-" then some [] else (r.splitOn "|").mapM parseRecTok

def parseInternal (s : String) : Option (Option (List Nat)) := do
  let r ← stripTag "I:" s
  if r == "n" then some none else (ofHex r).map some

def parseImage (i c b p m : String) : Option FruImage := do
  some ⟨← parseInternal i, ← parseChassis c, ← parseBoard b, ← parseProduct p, ← parseRecords m⟩

def covString (img : FruImage) (n : Nat) : String :=
  String.ofList ((List.range n).map fun i =>
    if covered img i then (if isAreaLengthByte img i then '2' else '1') else '0')

/-! ### requests -/

def parseVariant (s : String) : Option Variant :=
  match s.toList with
  | [a, b, c, d, e, f, g, h] => some ⟨a == '1', b == '1', c == '1', d == '1', e == '1', f == '1', g == '1', h == '1'⟩
  | _ => none

def parseKind (s : String) : Option InputKind :=
  if s == "b" then some .bytes else if s == "a" then some .array else if s == "l" then some .list else none

def parseAreaKind (s : String) : Option AreaKind :=
  if s == "c" then some .chassis else if s == "b" then some .board else if s == "p" then some .product else none

def handleC15 (line : String) : String :=
  match tokens line with
  | ["ping"] => "pong"
  | ["enc", i, c, b, p, m] =>
    match parseImage i c b p m with
    | none => "bad-op"
    | some img =>
      if img.wf then
        let bs := encodeFru img
        s!"ok {toHex bs} {covString img bs.length} {showView (view img)}"
      else "illformed"
  | ["parse", vv, k, h] =>
    match parseVariant vv, parseKind k, ofHex h with
    | some v, some k, some bs => showOutcome showView (parseFru v k bs)
    | _, _, _ => "bad-op"
  | ["tl", vv, k, h] =>
    match parseVariant vv, parseKind k, ofHex h with
    | some v, some k, some bs => showOutcome showField (tlString v k bs)
    | _, _, _ => "bad-op"
  | ["area", vv, k, a, h] =>
    match parseVariant vv, parseKind k, parseAreaKind a, ofHex h with
    | some v, some k, some a, some bs => showOutcome (showSlot showArea) (parseArea v k a bs)
    | _, _, _, _ => "bad-op"
  | ["dev", vv, h] =>
    match parseVariant vv, ofHex h with
    | some v, some bs => showOutcome showView (parseFruDevice v bs)
    | _, _ => "bad-op"
  | ["mr", vv, h] =>
    match parseVariant vv, ofHex h with
    | some v, some bs => showOutcome (showSlot showRecs) (parseMulti v bs)
    | _, _ => "bad-op"
  | ["hdr", h] =>
    match ofHex h with
    | some bs => showOutcome showHeader (parseHeader bs)
    | none => "bad-op"
  | ["sums", h] =>
    match ofHex h with
    | some bs => if checksumsOk bs then "1" else "0"
    | none => "bad-op"
  | ["wf", h] =>
    match ofHex h with
    | some bs =>
      if !checksumsOk bs then "sums" else if !fieldsOk bs then "fields" else if !layoutOk bs then "layout" else "ok"
    | none => "bad-op"
  | ["date", m] =>
    match m.toNat? with
    | some m =>
      let (y, mo, d, hh, mi) := dateOfMinutes m
      s!"{y} {mo} {d} {hh} {mi}"
    | none => "bad-op"
  | _ => "bad-op"

def main : IO Unit := do
  loop (← IO.getStdin) (← IO.getStdout) handleC15
