/-
  Line-protocol driver for C14 (thread interleavings).

    ping
    mon <wire-ev>* | <res>*
        the Spec monitor on a chronological wire log and per-call results
        -> ok | bad X=<0|1> S=<0|1> O=<0|1> C=<0|1>
    monm <wire-ev>* | <res>*
        the same with clause (X′): an exchange is tx (rx)+ owned by one thread (bridged targets: acknowledgement(s), then
        the wrapped reply)  -> ok | bad X=… S=… O=… C=…
    whole <wire-ev>* | <call>*
        clause (W): the datagrams of one call (request + retransmissions) are consecutive datagrams of the log, sent by
        the calling thread -> 0 | 1          call ::= tid:serial,serial,…
    rq <wire-ev>*
        clause (Q): consecutive transmissions carry different IPMB request sequence numbers -> 0 | 1
    run <xl> <nextSeq> <sessSeq> <calls:cmd>,<calls:cmd>,… <ka ticks|-> <closer tid|-> <join 0|1> <seqLocked 0|1>
        <max_retries> <lost serial>,<lost serial>,…|- <packOnce 0|1> | <tid:act>*
        trace validation: replay a logged access sequence in the Model (application threads in the
        order given, the keep-alive thread last; variants `join`, `seqLocked`, `packOnce`; retry budget and the
        datagrams whose reply the network loses)
        -> ok wire <wire-ev>* res <res>* mon <0|1> done <0|1> act <0|1>
         | reject <index> expected <act|none>

  wire-ev ::= T:tid:serial:seq:rq:cmd | R:tid:serial | X:tid:serial     (X: time-out on datagram `serial`)
  res     ::= tid:sent:got            (got = "-" when the call failed)
  act     ::= ldNS:v | stNS:v | acq | rel | ldSS:v | stSS:v | tx:serial:seq:rq:cmd | rx:serial
            | rxTimeout | qget:serial | qput:serial
            | ldAct:<0|1> | stAct:<0|1> | tick | kaExit | await | stopSet | join
-/
import PyIpmi.Base.Proto
import PyIpmi.Model.Threads
open PyIpmi.Proto PyIpmi.Threads PyIpmi.Spec.Threads

def parseWEv (s : String) : Option WEv :=
  match s.splitOn ":" with
  | ["T", a, b, c, d, e] => do pure (.tx (← a.toNat?) (← b.toNat?) (← c.toNat?) (← d.toNat?) (← e.toNat?))
  | ["R", a, b] => do pure (.rx (← a.toNat?) (← b.toNat?))
  | ["X", a, b] => do pure (.to (← a.toNat?) (← b.toNat?))
  | _ => none

def showWEv : WEv → String
  | .tx a b c d e => s!"T:{a}:{b}:{c}:{d}:{e}"
  | .rx a b => s!"R:{a}:{b}"
  | .to a b => s!"X:{a}:{b}"

def parseRes (s : String) : Option Res :=
  match s.splitOn ":" with
  | [a, b, c] => do
    let g ← if c == "-" then some none else c.toNat?.map some
    pure ⟨← a.toNat?, ← b.toNat?, g⟩
  | _ => none

def parseCall (s : String) : Option Call :=
  match s.splitOn ":" with
  | [a, b] => do pure ⟨← a.toNat?, ← (b.splitOn ",").mapM (·.toNat?)⟩
  | _ => none

def showRes (r : Res) : String :=
  s!"{r.tid}:{r.sent}:" ++ (match r.got with | some g => toString g | none => "-")

def showAct : Act → String
  | .ldNS v => s!"ldNS:{v}" | .stNS v => s!"stNS:{v}" | .acq => "acq" | .rel => "rel"
  | .ldSS v => s!"ldSS:{v}" | .stSS v => s!"stSS:{v}"
  | .tx a b c d => s!"tx:{a}:{b}:{c}:{d}" | .rx a => s!"rx:{a}" | .rxTimeout => "rxTimeout"
  | .qget a => s!"qget:{a}" | .qput a => s!"qput:{a}" | .tau => "tau"
  | .ldAct v => s!"ldAct:{if v then 1 else 0}" | .stAct v => s!"stAct:{if v then 1 else 0}"
  | .tick => "tick" | .kaExit => "kaExit" | .await => "await" | .stopSet => "stopSet" | .join => "join"

def parseTAct (s : String) : Option (Nat × Act) :=
  match s.splitOn ":" with
  | [t, "ldNS", v] => do pure (← t.toNat?, .ldNS (← v.toNat?))
  | [t, "stNS", v] => do pure (← t.toNat?, .stNS (← v.toNat?))
  | [t, "acq"] => do pure (← t.toNat?, .acq)
  | [t, "rel"] => do pure (← t.toNat?, .rel)
  | [t, "ldSS", v] => do pure (← t.toNat?, .ldSS (← v.toNat?))
  | [t, "stSS", v] => do pure (← t.toNat?, .stSS (← v.toNat?))
  | [t, "tx", a, b, c, d] => do pure (← t.toNat?, .tx (← a.toNat?) (← b.toNat?) (← c.toNat?) (← d.toNat?))
  | [t, "rx", a] => do pure (← t.toNat?, .rx (← a.toNat?))
  | [t, "rxTimeout"] => do pure (← t.toNat?, .rxTimeout)
  | [t, "qget", a] => do pure (← t.toNat?, .qget (← a.toNat?))
  | [t, "qput", a] => do pure (← t.toNat?, .qput (← a.toNat?))
  | [t, "ldAct", v] => do pure (← t.toNat?, .ldAct ((← v.toNat?) != 0))
  | [t, "stAct", v] => do pure (← t.toNat?, .stAct ((← v.toNat?) != 0))
  | [t, "tick"] => do pure (← t.toNat?, .tick)
  | [t, "kaExit"] => do pure (← t.toNat?, .kaExit)
  | [t, "await"] => do pure (← t.toNat?, .await)
  | [t, "stopSet"] => do pure (← t.toNat?, .stopSet)
  | [t, "join"] => do pure (← t.toNat?, .join)
  | _ => none

def parseOptNat (s : String) : Option (Option Nat) :=
  if s == "-" then some none else s.toNat?.map some

def parseThreads (s : String) : Option (List (Nat × Nat)) :=
  if s == "-" then some [] else
  (s.splitOn ",").mapM fun p =>
    match p.splitOn ":" with
    | [a, b] => do pure (← a.toNat?, ← b.toNat?)
    | _ => none

/-- `3,5` → the loss plan [f, f, f, t, f, t] -/
def parseLoss (s : String) : Option (List Bool) :=
  if s == "-" then some [] else do
    let ks ← (s.splitOn ",").mapM (·.toNat?)
    let top := ks.foldl max 0
    pure ((List.range (top + 1)).map fun i => ks.contains i)

def splitBar (l : List String) : List String × List String :=
  (l.takeWhile (· ≠ "|"), (l.dropWhile (· ≠ "|")).drop 1)

def b01 (b : Bool) : String := if b then "1" else "0"

def handleC14 (line : String) : String :=
  match tokens line with
  | ["ping"] => "pong"
  | "mon" :: rest =>
    let (w, r) := splitBar rest
    match w.mapM parseWEv, r.mapM parseRes with
    | some wire, some rs =>
      if accepts wire rs then "ok"
      else s!"bad X={b01 (exchangesOk wire)} S={b01 (seqIncreasing wire)} O={b01 (ownReply wire rs)} C={b01 (closeLast wire)}"
    | _, _ => "bad-op"
  | "monm" :: rest =>
    let (w, r) := splitBar rest
    match w.mapM parseWEv, r.mapM parseRes with
    | some wire, some rs =>
      if acceptsMulti wire rs then "ok"
      else s!"bad X={b01 (exchangesOkMulti wire)} S={b01 (seqIncreasing wire)} O={b01 (ownReply wire rs)} C={b01 (closeLast wire)}"
    | _, _ => "bad-op"
  | "whole" :: rest =>
    let (w, c) := splitBar rest
    match w.mapM parseWEv, c.mapM parseCall with
    | some wire, some cs => b01 (wholeExchanges wire cs)
    | _, _ => "bad-op"
  | "rq" :: w =>
    match w.mapM parseWEv with
    | some wire => b01 (rqDistinct wire)
    | none => "bad-op"
  | "run" :: xl :: ns :: ss :: thr :: ka :: closer :: join :: sl :: mr :: loss :: po :: rest =>
    let (_, tr) := splitBar rest
    match xl.toNat?, ns.toNat?, ss.toNat?, parseThreads thr, parseOptNat ka, parseOptNat closer, join.toNat?,
        sl.toNat?, tr.mapM parseTAct, mr.toNat?, parseLoss loss, po.toNat? with
    | some xl, some ns, some ss, some thr, some ka, some closer, some join, some sl, some tr, some mr, some loss,
        some po =>
      match replay (init { nextSeq := ns, sessSeq := ss, xl := xl, threads := thr, ka := ka, closer := closer,
                           join := join != 0, seqLocked := sl != 0, maxRetries := mr, loss := loss,
                           packOnce := po != 0 }) tr with
      | .ok s =>
        let done := s.thr.all fun th => th.pc == .done || th.pc == .kaWait
        "ok wire " ++ " ".intercalate (s.wireChron.map showWEv) ++ " res " ++
          " ".intercalate (s.results.map showRes) ++
          s!" mon {b01 (accepts s.wireChron s.results)} done {b01 done} act {b01 s.activated}"
      | .error (i, l) =>
        s!"reject {i} expected " ++ (match l with | some a => showAct a | none => "none")
    | _, _, _, _, _, _, _, _, _, _, _, _ => "bad-op"
  | _ => "bad-op"

def main : IO Unit := do
  loop (← IO.getStdin) (← IO.getStdout) handleC14
