/-
  Line-protocol driver for C05 (LAN wire layer).

    md5 <hex>                                              -> <hex>
    send <sess 0|1> <auth> <sid> <seq> <act 0|1> <pw hex> <sdu hex> <rmcpSeq>
                                                           -> ok <datagram hex> <seq after> | <error tag> <seq after>
    judge <auth> <sid> <seq> <pw hex> <sdu hex> <datagram hex>   (Spec.Lan.sentOk)
                                                           -> 1 | 0
    parse <datagram hex>                                   -> ver rsvd rmcpSeq cls auth seq sid code len payload | none
    recv <s|i> <ignore 0|1> <datagram hex>                 -> ok <hex> | ok none | <error tag>   (model)
    specrecv <ignore 0|1> <datagram hex>                   -> some <hex> | none                   (Spec.Lan.receive)
    ping <rmcpSeq>                                         -> ok <hex> | <error tag>              (model)
    specping <rmcpSeq> <tag>                               -> <hex>
    pong <s|i> <datagram hex>                              -> ok <iana> <type> <tag> <oemIana> <oemDefined> <entities> <interactions>
                                                              | <error tag>                       (model, check_data as shipped / intended)
    ispong <datagram hex>                                  -> 1 | 0                               (Spec.Lan.isPongFormat)
    specpong <datagram hex>                                -> some <tag> <oemIana> <oemDefined> <entities> <interactions> | none
                                                                                                  (Spec.Lan.parsePong)
    pongpack <s|i> <tag> <oemIana> <oemDefined> <entities> <interactions>  -> ok <hex> | <error tag>  (model of AsfPong.pack)
    mkpong <tag> <oemIana> <oemDefined> <entities> <interactions>  -> <hex>                       (Spec.Lan.pongDatagram)
-/
import PyIpmi.Base.Proto
import PyIpmi.Model.Md5
import PyIpmi.Model.RmcpWire
import PyIpmi.Model.PongPack
import PyIpmi.Spec.Lan
open PyIpmi PyIpmi.Proto PyIpmi.RmcpWire

def md5f : List Nat → List Nat := PyIpmi.Md5.md5

def showOpt : Option (List Nat) → String
  | none => "none"
  | some l => toHex l

def handleC05 (line : String) : String :=
  match tokens line with
  | ["md5", h] =>
    match ofHex h with
    | some b => toHex (md5f b)
    | none => "bad-op"
  | ["send", se, au, si, sq, ac, pw, sdu, rs] =>
    match au.toNat?, si.toNat?, sq.toNat?, ofHex pw, ofHex sdu, rs.toNat? with
    | some au, some si, some sq, some pw, some sdu, some rs =>
      let s : Option Sess := if se == "1" then some ⟨au, si, sq, ac == "1", pw⟩ else none
      let after := match sessAfterPack s with
        | some s' => s'.seq
        | none => 0
      match sendIpmi md5f rs s sdu with
      | .ok d => s!"ok {toHex d} {after}"
      | e => s!"{e.tag} {after}"
    | _, _, _, _, _, _ => "bad-op"
  | ["judge", au, si, sq, pw, sdu, dg] =>
    match au.toNat?, si.toNat?, sq.toNat?, ofHex pw, ofHex sdu, ofHex dg with
    | some au, some si, some sq, some pw, some sdu, some dg =>
      if Spec.Lan.sentOk md5f au pw si sq sdu dg then "1" else "0"
    | _, _, _, _, _, _ => "bad-op"
  | ["parse", dg] =>
    match ofHex dg with
    | some dg =>
      match Spec.Lan.parseLan dg with
      | some p => s!"{p.ver} {p.rsvd} {p.rmcpSeq} {p.cls} {p.auth} {p.seq} {p.sid} {showOpt p.code} {p.len} {toHex p.payload}"
      | none => "none"
    | none => "bad-op"
  | ["recv", v, ig, dg] =>
    match ofHex dg with
    | some dg =>
      match receiveIpmi (if v == "s" then .asShipped else .intended) (ig == "1") dg with
      | .ok r => "ok " ++ showOpt r
      | e => e.tag
    | none => "bad-op"
  | ["specrecv", ig, dg] =>
    match ofHex dg with
    | some dg =>
      match Spec.Lan.receive (ig == "1") dg with
      | some p => "some " ++ toHex p
      | none => "none"
    | none => "bad-op"
  | ["ping", rs] =>
    match rs.toNat? with
    | some rs =>
      match pingDatagram rs with
      | .ok d => "ok " ++ toHex d
      | e => e.tag
    | none => "bad-op"
  | ["specping", rs, tag] =>
    match rs.toNat?, tag.toNat? with
    | some rs, some tag => toHex (Spec.Lan.pingBytes rs tag)
    | _, _ => "bad-op"
  | ["pong", v, dg] =>
    match ofHex dg with
    | some dg =>
      match receivePongV (if v == "s" then .asShipped else .intended) dg with
      | .ok f => s!"ok {f.iana} {f.type} {f.tag} {f.oemIana} {f.oemDefined} {f.entities} {f.interactions}"
      | e => e.tag
    | none => "bad-op"
  | ["specpong", dg] =>
    match ofHex dg with
    | some dg =>
      match Spec.Lan.parsePong dg with
      | some p => s!"some {p.tag} {p.oemIana} {p.oemDefined} {p.entities} {p.interactions}"
      | none => "none"
    | none => "bad-op"
  | ["mkpong", tg, oi, od, en, ia] =>
    match tg.toNat?, oi.toNat?, od.toNat?, en.toNat?, ia.toNat? with
    | some tg, some oi, some od, some en, some ia => toHex (Spec.Lan.pongDatagram ⟨tg, oi, od, en, ia⟩)
    | _, _, _, _, _ => "bad-op"
  | ["pongpack", v, tg, oi, od, en, ia] =>
    match tg.toNat?, oi.toNat?, od.toNat?, en.toNat?, ia.toNat? with
    | some tg, some oi, some od, some en, some ia =>
      match pongPackV (if v == "s" then .asShipped else .intended) tg oi od en ia with
      | .ok d => "ok " ++ toHex d
      | e => e.tag
    | _, _, _, _, _ => "bad-op"
  | ["ispong", dg] =>
    match ofHex dg with
    | some dg => if Spec.Lan.isPongFormat dg then "1" else "0"
    | none => "bad-op"
  | _ => "bad-op"

def main : IO Unit := do
  loop (← IO.getStdin) (← IO.getStdout) handleC05
