/-
  Line-protocol driver for C04 (request/response exchanges of the three native transports).

    rmcp <maxRetries> <ignoreRqSeq> <ignoreSduLen> <requeue> <cmdOnly> <drain> <slave> <nextSeq> <queue> <sock>
         <rsSa> <netfn> <lun> <cmd> <payload> <routing> <ev>*
        queue   ::= - | hex,hex,…          routing ::= - | rq:rs:ch,rq:rs:ch,…
        sock    ::= - | ev,ev,…            (datagrams still in the socket when the request starts)
        ev      ::= F<hex> | L<hex> | M | T           (F- is an empty payload)
      -> <outcome> seq=<n> q=<queue> consumed=<n> sends=<n> tx=<hex> left=<sock>
         (consumed: events read, of socket content + arrivals; left: what is in the socket afterwards)
    i2c <d|a> <refuse 0|1> <nextSeq> <rsSa> <netfn> <lun> <cmd> <payload> <routing> <ev>*
        ev      ::= F<dt>:<hex> | L<dt>:<hex> | E<dt> | I
        refuse  ::= 1 (repaired: a routing with more than one hop raises NotSupportedError) | 0 (as shipped: ignored)
      -> <outcome> seq=<n> consumed=<n> sends=<n> tx=<hex|?>        (tx=? : nothing was written)
    probe <d|a> <inc 0|1> <refuse 0|1> <nextSeq> <rsSa> <routing> <ev>*          (is_ipmc_accessible; ok = "accessible")
      -> <outcome> seq=<n> consumed=<n> sends=<n> tx=<hex|?>
    oracle <checkSeq> <netfn> <lun> <cmd> <seq> <hex>*      (Spec.allowedAnswers)
      -> allowed <hex>*
    classify <checkSeq> <netfn> <lun> <cmd> <seq> <bridged -|seq> <hex>     (Spec predicates on one frame)
      -> reply=<0|1> unrelated=<0|1> bareack=<0|1> ownrsp=<0|1>
    consts -> generated constants
  outcome ::= ok <hex> | <error tag>
-/
import PyIpmi.Base.Proto
import PyIpmi.Model.RmcpLoop
import PyIpmi.Model.IpmbDevLoop
import PyIpmi.Spec.Attribution
open PyIpmi PyIpmi.Proto PyIpmi.Loops

def showOut (o : Outcome Frame) : String :=
  match o with
  | .ok d => "ok " ++ toHex d
  | e => e.tag

def parseBool (s : String) : Option Bool :=
  if s == "1" then some true else if s == "0" then some false else none

def parseQueue (s : String) : Option (List Frame) :=
  if s == "-" then some [] else (s.splitOn ",").mapM ofHex

def showQueue (q : List Frame) : String :=
  if q.isEmpty then "-" else ",".intercalate (q.map toHex)

def parseHop (s : String) : Option Hop :=
  match s.splitOn ":" with
  | [a, b, c] => do
    let a ← a.toNat?
    let b ← b.toNat?
    let c ← c.toNat?
    pure ⟨a, b, c⟩
  | _ => none

def parseRouting (s : String) : Option (List Hop) :=
  if s == "-" then some [] else (s.splitOn ",").mapM parseHop

def parseRxEvent (s : String) : Option RxEvent :=
  if s == "T" then some .timeout
  else if s == "M" then some .malformed
  else if s.startsWith "F" then (ofHex (s.drop 1).toString).map .frame
  else if s.startsWith "L" then (ofHex (s.drop 1).toString).map .badLen
  else none

def parseSock (s : String) : Option (List RxEvent) :=
  if s == "-" then some [] else (s.splitOn ",").mapM parseRxEvent

def showRxEvent : RxEvent → String
  | .frame bs => "F" ++ toHex bs
  | .badLen bs => "L" ++ toHex bs
  | .malformed => "M"
  | .timeout => "T"

def showSock (l : List RxEvent) : String :=
  if l.isEmpty then "-" else ",".intercalate (l.map showRxEvent)

def parseDtHex (s : String) : Option (Nat × Frame) :=
  match s.splitOn ":" with
  | [a, b] => do
    let a ← a.toNat?
    let b ← ofHex b
    pure (a, b)
  | _ => none

def parseI2cEvent (s : String) : Option I2cEvent :=
  if s == "I" then some .idle
  else if s.startsWith "E" then ((s.drop 1).toString.toNat?).map .rdError
  else if s.startsWith "F" then (parseDtHex (s.drop 1).toString).map fun p => .frame p.1 p.2
  else if s.startsWith "L" then (parseDtHex (s.drop 1).toString).map fun p => .badLen p.1 p.2
  else none

/-- the first frame written (`?` when nothing was) -/
def showTx (tx : List Frame) : String :=
  match tx with
  | [] => "?"
  | f :: _ => toHex f

def b01 (b : Bool) : String := if b then "1" else "0"

def handleC04 (line : String) : String :=
  match tokens line with
  | ["ping"] => "pong"
  | ["consts"] =>
    s!"send={Gen.Loops04.cmdSendMessage} app={Gen.Loops04.netfnApp} mod={Gen.Loops04.rmcpSeqMod} inner={Gen.Loops04.rmcpInnerExtra} outer={Gen.Loops04.rmcpOuterExtra} i2cTimeout={Gen.Loops04.ipmbdevTimeoutTicks} i2cRetries={Gen.Loops04.ipmbdevMaxRetries}"
  | "rmcp" :: mr :: igs :: igl :: rq :: co :: dr :: slave :: seq :: q :: sk :: rsSa :: netfn :: lun :: cmd :: pl :: rt :: evs =>
    match mr.toNat?, parseBool igs, parseBool igl, parseBool rq, parseBool co, parseBool dr, slave.toNat?, seq.toNat? with
    | some mr, some igs, some igl, some rq, some co, some dr, some slave, some seq =>
      match parseQueue q, parseSock sk, rsSa.toNat?, netfn.toNat?, lun.toNat?, cmd.toNat?, ofHex pl, parseRouting rt,
          evs.mapM parseRxEvent with
      | some q, some sk, some rsSa, some netfn, some lun, some cmd, some pl, some rt, some evs =>
        let cfg : Cfg := { maxRetries := mr, ignoreRqSeq := igs, ignoreSduLength := igl, requeue := rq, cmdOnly := co,
                           drain := dr, slaveAddr := slave }
        let req : Req := { rsSa := rsSa, netfn := netfn, lun := lun, cmd := cmd, payload := pl, routing := rt }
        let st : IfState := ⟨seq, q, sk⟩
        let r := rmcpRequest cfg st req evs
        s!"{showOut r.out} seq={r.st.nextSeq} q={showQueue r.st.queue} consumed={(pending cfg st evs).length - r.rest.length} sends={r.tx.length} tx={toHex (txData cfg req r.st.nextSeq)} left={showSock r.st.sock}"
      | _, _, _, _, _, _, _, _, _ => "bad-op"
    | _, _, _, _, _, _, _, _ => "bad-op"
  | "i2c" :: kind :: rf :: seq :: rsSa :: netfn :: lun :: cmd :: pl :: rt :: evs =>
    match parseBool rf, seq.toNat?, rsSa.toNat?, netfn.toNat?, lun.toNat?, cmd.toNat?, ofHex pl, parseRouting rt,
        evs.mapM parseI2cEvent with
    | some rf, some seq, some rsSa, some netfn, some lun, some cmd, some pl, some rt, some evs =>
      let cfg := { (if kind == "d" then I2cCfg.ipmbdev else I2cCfg.aardvark) with refuseRouted := rf }
      let req : Req := { rsSa := rsSa, netfn := netfn, lun := lun, cmd := cmd, payload := pl, routing := rt }
      let r := i2cRequest cfg seq req evs
      s!"{showOut r.out} seq={r.nextSeq} consumed={evs.length - r.rest.length} sends={r.tx.length} tx={showTx r.tx}"
    | _, _, _, _, _, _, _, _, _ => "bad-op"
  | "probe" :: kind :: inc :: rf :: seq :: rsSa :: rt :: evs =>
    match parseBool inc, parseBool rf, seq.toNat?, rsSa.toNat?, parseRouting rt, evs.mapM parseI2cEvent with
    | some inc, some rf, some seq, some rsSa, some rt, some evs =>
      let cfg := { (if kind == "d" then I2cCfg.ipmbdev else I2cCfg.aardvark) with refuseRouted := rf }
      let r := i2cProbe cfg inc seq rsSa evs rt
      s!"{showOut r.out} seq={r.nextSeq} consumed={evs.length - r.rest.length} sends={r.tx.length} tx={showTx r.tx}"
    | _, _, _, _, _, _ => "bad-op"
  | "oracle" :: cs :: netfn :: lun :: cmd :: seq :: frames =>
    match parseBool cs, netfn.toNat?, lun.toNat?, cmd.toNat?, seq.toNat?, frames.mapM ofHex with
    | some cs, some netfn, some lun, some cmd, some seq, some frames =>
      let a := Spec.Attribution.allowedAnswers cs ⟨netfn, lun, cmd, seq⟩ frames
      " ".intercalate ("allowed" :: a.map toHex)
    | _, _, _, _, _, _ => "bad-op"
  | ["classify", cs, netfn, lun, cmd, seq, br, f] =>
    match parseBool cs, netfn.toNat?, lun.toNat?, cmd.toNat?, seq.toNat?, ofHex f with
    | some cs, some netfn, some lun, some cmd, some seq, some f =>
      let r : Spec.Attribution.ReqId := ⟨netfn, lun, cmd, seq⟩
      let b : Option Nat := if br == "-" then none else br.toNat?
      s!"reply={b01 (decide (Spec.Attribution.isReplyTo cs r f))} unrelated={b01 (decide (Spec.Attribution.Unrelated cs r b f))} bareack={b01 (decide (Spec.Attribution.BareAck cs b f))} ownrsp={b01 (decide (Spec.Attribution.OwnSendMsgRsp cs b f))}"
    | _, _, _, _, _, _ => "bad-op"
  | _ => "bad-op"

def main : IO Unit := do
  loop (← IO.getStdin) (← IO.getStdout) handleC04
