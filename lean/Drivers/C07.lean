/-
  Line-protocol driver for C07.  Hosts up to 4 instances of the reference BMC (Spec.Bmc,
  stateful) and the per-operation models (Model.Api).

    new <i> <seed>                       -> ok            instance i := random conforming state
    mut <i> <seed> <family>              -> ok            the BMC's own state moves (family: chassis|sensors|leds|hpm|fans|…|all;
                                                          unavail: every pool sensor flags reading/state unavailable while it
                                                          still holds non-zero state bytes)
    req <i> <netfn> <lun> <cmd> <hex>    -> <hex>         one IPMI request; reply = completion code :: data
    digest <i>                           -> <hash>
    fanrev <i> <fru>                     -> R3.0 | R1.0/R2.0      command set of that fan tray
    dump <i>                             -> Repr of the normalised state
    spec <i> <op> <args…>                -> <digest-after> <result>     oracle: Spec.run, instance untouched
    specdump <i> <op> <args…>            -> Repr of the state the oracle expects
    model <i> <variant> <op> <args…>     -> <digest-after> <result | error tag>      Model.Api, instance untouched;
                                            variant: letters for the operations modelled AS SHIPPED (Model.Api.Variant):
                                            l LED decode, p port state, r LAN revision-only, b rollback status,
                                            u sensor states while unavailable, d HPM description through raw_unicode_escape,
                                            f fourth byte of Set Fan Level, o OEM link types, s reserved state bit 15;
                                            - = all as intended
    spec also answers the composite HPM queries that have no single-exchange model (exercised against the oracle
    only): get_component_properties <id>, find_component_id_by_descriptor <hex>
    domain <i> <op> <args…>              -> <0|1> <0|1>   arguments inside `Call.InRange`, instance inside `BmcState.Wf`
                                            (executable checks of Model/Api/Domain.lean, proved sound in Lemmas/ApiDomain.lean)
    modelreq <variant> <op> <args…>      -> <netfn> <lun> <cmd> <hex> | <error tag>  the request the model puts on the wire
    ops                                  -> names of the operations that have a model
    model / modelx / modelreq also take `set_ip_address_text <hex of the argument's characters> <channel>`: the model of
    set_ip_address on the TEXT of its argument (Model.Api.api_set_ip_address_text: split at '.', each octet a decimal
    numeral with int()'s blanks / sign); `spec` is asked with the four octets the text DENOTES (harness: decimal per octet)
-/
import PyIpmi.Base.Proto
import PyIpmi.Spec.Bmc
import PyIpmi.Model.Api.Ops
import PyIpmi.Model.Api.Domain
open PyIpmi PyIpmi.Proto PyIpmi.Spec.Bmc

/-! ### random conforming states -/

abbrev Gen := StateM Nat

def rnd (n : Nat) : Gen Nat := do
  let s ← get
  let s' := (s * 6364136223846793005 + 1442695040888963407) % 18446744073709551616
  set s'
  pure ((s' / 8589934592) % (if n = 0 then 1 else n))

def rndBool : Gen Bool := do pure ((← rnd 2) == 1)
def rndBytes (n : Nat) : Gen (List Nat) := (List.range n).mapM fun _ => rnd 256
def pick {α} [Inhabited α] (l : List α) : Gen α := do pure (l.getD (← rnd l.length) default)
/-- boundary-biased byte -/
def rndByte : Gen Nat := do
  if (← rnd 4) == 0 then pick [0, 1, 0x7f, 0x80, 0xfe, 0xff] else rnd 256
def rndOpt (g : Gen Nat) : Gen (Option Nat) := do
  if ← rndBool then pure (some (← g)) else pure none

def genDevice : Gen DeviceId := do
  let aux ← if ← rndBool then (do pure (some (← rndBytes 4))) else pure none
  pure { deviceId := ← rndByte, revision := ← rnd 16, providesSdrs := ← rndBool, updateInProgress := ← rndBool,
         fwMajor := ← rnd 128, fwMinor := ← rnd 100, ipmiMajor := ← pick [1, 2], ipmiMinor := ← pick [0, 5],
         support := ← rndByte, manufacturer := ← pick [0, 1, 15000, 0xfffff, 0x12345],
         product := ← pick [0, 1, 0xffff, 0x1234, 0x8001],
         aux := aux }

def genWatchdog : Gen Watchdog := do
  let init ← pick [0, 1, 100, 0xff, 0x100, 0xffff, 0x1234]
  pure { timerUse := ← rnd 8, dontLog := ← rndBool, running := ← rndBool, action := ← rnd 8,
         preInterrupt := ← rnd 8, preInterval := ← rndByte, expFlags := ← rndByte, initial := init,
         present := ← pick [0, init, 0xffff, 7] }

def genChassis : Gen Chassis := do
  pure { powerOn := ← rndBool, overload := ← rndBool, interlock := ← rndBool, fault := ← rndBool,
         controlFault := ← rndBool, restorePolicy := ← rnd 4,
         evAcFailed := ← rndBool, evOverload := ← rndBool, evInterlock := ← rndBool, evFault := ← rndBool,
         evIpmiOn := ← rndBool, intrusion := ← rndBool, lockout := ← rndBool, driveFault := ← rndBool,
         coolingFault := ← rndBool, idState := ← rnd 4, idSupported := ← rndBool,
         frontPanel := ← rndOpt rndByte }

def genSensor : Gen Sensor := do
  let s1 ← rndOpt rndByte
  -- byte 5 [6:0]: states 14..8 (bit 7 is the reserved bit every conforming BMC returns as 1)
  let s2 ← rndOpt (do if (← rnd 4) == 0 then pick [0, 1, 0x40, 0x7f, 0x7e, 2] else rnd 128)
  pure { reading := ← rndByte, eventMsgEnabled := ← rndBool, scanningEnabled := ← rndBool,
         unavailable := (← rnd 4) == 0, states1 := s1, states2 := if s1.isSome then s2 else none,
         readable := ← pick [0x3f, 0, 0x1b, 0x24, 0x01, 0x20, 0x15], thresholds := ← rndBytes 6 }

def genLedFn : Gen LedFn := do
  match ← rnd 4 with
  | 0 => pure .off
  | 1 => pure .on
  | _ => pure (.blink (← pick [1, 2, 0x7f, 0xf9, 0xfa, 50]) (← pick [1, 2, 0x7f, 0xf9, 0xfa, 30]))

def genLed : Gen Led := do
  pure { localAvail := ← rndBool, overrideEn := ← rndBool, lampTestEn := (← rnd 3) == 0,
         localFn := ← genLedFn, localColor := 1 + (← rnd 6), overrideFn := ← genLedFn,
         overrideColor := 1 + (← rnd 6), lampDur := ← rnd 128 }

def genFan : Gen Fan := do
  let lv ← rndOpt (rnd 16)
  let le ← rndOpt (rnd 2)
  -- both revisions of the fan tray: R3.0 (takes the optional fourth byte of Set Fan Level, reports the local control
  -- enable state) and R1.0/R2.0 (three request bytes, no enable state)
  let r3 ← rndBool
  pure { minLevel := ← rnd 4, maxLevel := 10 + (← rnd 20), normalLevel := ← rnd 10, localSupported := ← rndBool,
         overrideLevel := ← pick [0, 1, 5, 0xfe, 0xff], localLevel := lv,
         localEnabled := if lv.isSome && r3 then le else none, r3 := r3 }

def genPort : Gen Port := do
  -- link types: PICMG 3.x (01h..05h, with a signalling class in the upper nibble), OEM GUID (F0h..FEh), any byte
  let lt ← match ← rnd 4 with
    | 0 => pick [1, 2, 3, 4, 5, 0x32, 0x12]
    | 1 => pick [0xf0, 0xf1, 0xf2, 0xf3, 0xfe, 0xff]
    | _ => rndByte
  pure { hasLink := (← rnd 5) != 0, flags := ← rnd 16, linkType := lt, ext := ← rnd 16,
         grouping := ← rndByte, state := ← rnd 2 }

def genPower : Gen PowerLevel := do
  pure { dynamic := ← rndBool, level := ← rnd 32, delay := ← rndByte, multiplier := ← rndByte,
         draw := ← rndBytes (← rnd 21) }

/-- component descriptions: printable ASCII (what HPM.1 asks for) with the backslash sequences a Python codec could
take for escapes, and any non-NUL bytes; pool shared with the harness (`DESCR_POOL` of harness/props/c07.py) -/
def descrPool : List (List Nat) :=
  [[73, 80, 77, 67], [102, 119, 92, 117, 112, 100, 97, 116, 101], [65, 92, 117, 48, 48, 52, 50, 67], [65, 66, 67],
   [92, 85, 48, 48, 48, 48, 48, 48, 52, 49], [92, 92, 117, 48, 48, 52, 49], [98, 111, 111, 116, 92], [92, 117, 48, 48, 48, 48, 97],
   [92, 120, 52, 49], [92, 117, 100, 56, 48, 48], [92, 85, 48, 48, 49, 49, 48, 48, 48, 48], [70, 80, 71, 65, 32, 35, 49],
   [84, 119, 101, 108, 118, 101, 32, 99, 104, 97, 114, 115],     -- this one fills the 12-byte field
   -- descriptions that begin / end with a blank character: "IPMC ", " IPMC", "boot\t", "\nfw", " "
   [73, 80, 77, 67, 32], [32, 73, 80, 77, 67], [98, 111, 111, 116, 9], [10, 102, 119], [32]]

def genDescr : Gen (List Nat) := do
  match ← rnd 4 with
  | 0 => (List.range (← rnd 13)).mapM fun _ => do pure (1 + (← rnd 255))
  | 1 =>   -- a backslash somewhere in printable text
    let n ← rnd 12
    let cs ← (List.range n).mapM fun _ => do
      if (← rnd 4) == 0 then pick [92, 117, 85, 48, 52, 102] else (do pure (0x20 + (← rnd 0x5f)))
    pure cs
  | _ => pick descrPool

def genVersion : Gen (List Nat) := do
  pure [← rnd 128, ← pick [0, 0x01, 0x10, 0x99, 0x42], ← rndByte, ← rndByte, ← rndByte, ← rndByte]

def genHpm0 : Gen Hpm := do
  pure { version := ← pick [0, 1], capabilities := ← rndByte, timeouts := ← rndBytes 4, components := ← rndByte,
         cmdInProgress := ← pick [0, 0x31, 0x32, 0x33, 0x35], lastCc := ← pick [0, 0x80, 0x81, 0xd5, 0xff],
         estimate := ← rndOpt (rnd 101), selftest1 := ← pick [0x55, 0x56, 0x57, 0x58, 0x60],
         selftest2 := ← rndByte, rollbackStatus := ← (do if (← rnd 3) == 0 then pick [0, 1, 0x05, 0x80, 0x81, 0xff] else rnd 256),
         rollbackEstimate := ← rndOpt (do if (← rnd 3) == 0 then pure 0 else rnd 101) }

def lunPool : List Nat := [0, 1, 2, 3]
def sensorPool : List Nat := [0, 1, 2, 0x7f, 0x80, 0xfe, 0xff]
def fruPool : List Nat := [0, 1, 2, 3, 0xfe]
def ledPool : List Nat := [0, 1, 2, 3, 4, 0xff]
def chanPool : List Nat := [0, 1, 2, 7, 15]
def userPool : List Nat := [1, 2, 3, 10, 62, 63]

def genMap {α} (keys : List Nat) (g : Gen α) (skip : Nat := 3) : Gen (Map α) := do
  let mut m : Map α := {}
  for k in keys do
    if (← rnd skip) != 0 then m := m.set k (← g)
  pure m

def genHpm : Gen Hpm := do
  let ids := [0, 1, 2, 3, 4, 5, 6, 7]
  let descr ← genMap ids genDescr 4
  let general ← genMap ids rndByte 3
  let ver ← genMap ids genVersion 3
  let rb ← genMap ids genVersion 2
  let df ← genMap ids genVersion 2
  let h ← genHpm0
  pure { h with compDescr := descr, compGeneral := general, compVersion := ver, compRollback := rb, compDeferred := df }

def validBootDevs : List Nat := [0, 1, 2, 3, 4, 5, 6, 7, 8, 9, 11, 15]

def genBoot : Gen (Map (List Nat)) := do
  let dev ← pick validBootDevs
  let d1 := 128 * (← rnd 2) + 64 * (← rnd 2) + 32 * (← rnd 2)
  let d2 := 128 * (← rnd 2) + 64 * (← rnd 2) + 4 * dev + (← rnd 4)
  let mut m : Map (List Nat) := {}
  m := m.set 5 [d1, d2, ← rndByte, ← rnd 32, ← rnd 32]
  if ← rndBool then m := m.set 0 [← rnd 3]
  if ← rndBool then m := m.set 4 [← rndByte, ← rndByte]
  pure m

def genLan : Gen (Map (List Nat)) := do
  let mut m : Map (List Nat) := {}
  for ch in chanPool do
    if ← rndBool then m := m.set (lanKey ch 3) (← rndBytes 4)
    if ← rndBool then m := m.set (lanKey ch 4) [← rnd 5]
    if ← rndBool then m := m.set (lanKey ch 5) (← rndBytes 6)
    if ← rndBool then
      let id ← pick [0, 1, 394, 0xff, 0x100, 4094, 4095, 0x7ff]
      m := m.set (lanKey ch 20) [id % 256, 128 * (← rnd 2) + id / 256]
    if ← rndBool then m := m.set (lanKey ch 16) (← rndBytes 18)
  pure m

/-- parameter revisions: 11h (this specification) or another present/compatible pair, per channel and parameter -/
def genLanRev : Gen (Map Nat) := do
  let mut m : Map Nat := {}
  for ch in chanPool do
    for p in [0, 3, 4, 5, 6, 12, 16, 20] do
      if (← rnd 3) == 0 then m := m.set (lanKey ch p) (← pick [0x11, 0x10, 0x21, 0x22, 0x01, 0xf1, 0xff, 0x00])
  pure m

/-- a sensor whose update is in progress: unavailable flag set, the state bytes (stale) are not zero -/
def genSensorUnavailable : Gen Sensor := do
  let x ← genSensor
  let s2 ← rndOpt (do pure (1 + (← rnd 127)))
  pure { x with unavailable := true, states1 := some (1 + (← rnd 255)), states2 := s2 }

def genAccess : Gen UserAccess := do
  pure { privilege := ← pick [0, 1, 2, 3, 4, 5, 0xf, 7], ipmiMsg := ← rndBool, linkAuth := ← rndBool,
         callbackOnly := ← rndBool, sessionLimit := ← rnd 16 }

/-- a blank character (space, tab, newline, carriage return) chosen by an already drawn value -/
def blankOf (c : Nat) : Nat := [0x20, 0x20, 0x09, 0x0a, 0x0d].getD (c / 8 % 5) 0x20

/-- stored user names: printable ASCII of every length 0..16; about a quarter of them BEGIN and / or END with a blank
character (legal name characters, IPMI 22.28) - decided by the characters already drawn, so that the rest of the
generated state does not depend on it -/
def genName : Gen (List Nat) := do
  let n ← rnd 17
  let cs ← (List.range n).mapM fun _ => do pure (0x20 + (← rnd 0x5f))
  let cs := match cs with
    | a :: b :: r => if a % 8 == 0 then blankOf a :: b :: r else cs
    | _ => cs
  let cs := match cs.reverse with
    | z :: y :: r => if z % 8 == 1 then (blankOf z :: y :: r).reverse else cs
    | _ => cs
  pure (padTo 16 cs)

/-- boundary-biased value below `2^16` / `2^32` -/
def rndWord : Gen Nat := do
  if (← rnd 4) == 0 then pick [0, 1, 0xff, 0x100, 0x7fff, 0x8000, 0xfffe, 0xffff] else rnd 65536
def rndDword : Gen Nat := do
  if (← rnd 4) == 0 then pick [0, 1, 0xffff, 0x10000, 0x7fffffff, 0x80000000, 0xfffffffe, 0xffffffff]
  else pure ((← rnd 65536) * 65536 + (← rnd 65536))
def genPowerReading : Gen PowerReading := do
  pure { current := ← rndWord, minimum := ← rndWord, maximum := ← rndWord, average := ← rndWord,
         timestamp := ← rndDword, period := ← rndDword, state := ← pick [0x40, 0x00, 0xff, 0x41] }
def dcmiPowerKeys : List Nat := [1, 2, 0, 0xff].flatMap fun m => [0, 1, 2, 0x7f, 0xff].map fun a => m * 256 + a
/-- at most 8 sensors per entity: what ONE Get DCMI Sensor Info response can carry (the library under test does not
page, Props/C07 `dcmi_sensor_ids_not_paged_counterexample`; larger populations are kept out of the run) -/
def genDcmi : Gen Dcmi := do
  let caps ← genMap [0, 1, 2, 3, 4, 5, 6, 0x80, 0xff] (do pure { revision := ← rndByte, data := ← rndBytes (← rnd 13) }) 3
  let power ← genMap dcmiPowerKeys genPowerReading 3
  let sensors ← genMap [0x40, 0x41, 0x42] (do (List.range (← pick [0, 1, 2, 3, 7, 8, 8])).mapM fun _ => rndWord) 4
  pure { confMajor := ← pick [1, 1, 0, 2, 0xff], confMinor := ← pick [5, 1, 0, 0xff, ← rnd 256], caps := caps, power := power,
         sensors := sensors }

def genState : Gen BmcState := do
  let sensorKeys := lunPool.flatMap fun l => sensorPool.map fun n => sensorKey l n
  let ledKeys := fruPool.flatMap fun f => ledPool.map fun l => ledKey f l
  let accessKeys := chanPool.flatMap fun c => userPool.map fun u => userKey c u
  let portKeys := [0, 1, 2].flatMap fun i => [0, 1, 5, 63].map fun c => portKey i c
  let powerKeys := fruPool.flatMap fun f => [0, 1, 2, 3].map fun t => f * 4 + t
  pure {
    device := ← genDevice, guid := ← rndBytes 16, watchdog := ← genWatchdog, chassis := ← genChassis,
    bootParams := ← genBoot, lan := ← genLan, lanRev := ← genLanRev,
    userNames := ← genMap userPool genName, userEnabled := ← genMap userPool (pick [0, 1, 2]),
    userAccess := ← genMap accessKeys genAccess, maxUsers := ← pick [1, 10, 63], fixedNames := ← rnd 3,
    sensors := ← genMap sensorKeys genSensor,
    evReceiverAddr := 2 * (← rnd 128), evReceiverLun := ← rnd 4,
    picmgVersion := ← pick [0x22, 0x32, 0x14], maxFruId := ← rnd 8, ipmcFruId := ← rnd 3,
    leds := ← genMap ledKeys genLed, fans := ← genMap fruPool genFan, ports := ← genMap portKeys genPort,
    power := ← genMap powerKeys genPower,
    frus := ← genMap fruPool (do pure { active := ← rndBool, locked := ← rndBool, deactLocked := ← rndBool }),
    sigClass := ← genMap portKeys (rnd 16),
    powerChannels := ← genMap [1, 2, 3, 16] (do pure { status := ← rnd 128 }),
    pmMaxChannel := ← pick [1, 16], pmGlobal := ← rnd 16, hpm := ← genHpm, dcmi := ← genDcmi }

def mutate (fam : String) (s : BmcState) : Gen BmcState := do
  let sensorKeys := lunPool.flatMap fun l => sensorPool.map fun n => sensorKey l n
  let ledKeys := fruPool.flatMap fun f => ledPool.map fun l => ledKey f l
  let all := fam == "all"
  let mut s := s
  if all || fam == "chassis" then s := { s with chassis := ← genChassis }
  if all || fam == "sensors" then s := { s with sensors := ← genMap sensorKeys genSensor 8 }
  if all || fam == "leds" then s := { s with leds := ← genMap ledKeys genLed 8 }
  if all || fam == "fans" then s := { s with fans := ← genMap fruPool genFan 8 }
  if all || fam == "hpm" then s := { s with hpm := ← genHpm, pmGlobal := ← rnd 16 }
  if all || fam == "dcmi" then s := { s with dcmi := ← genDcmi }
  if all || fam == "device" then s := { s with device := ← genDevice, watchdog := ← genWatchdog }
  if all || fam == "boot" then s := { s with bootParams := ← genBoot }
  if all || fam == "lan" then s := { s with lan := ← genLan, lanRev := ← genLanRev }
  if fam == "unavail" then
    let mut m := s.sensors
    for k in sensorKeys do m := m.set k (← genSensorUnavailable)
    s := { s with sensors := m }
  if all || fam == "guid" then s := { s with guid := ← rndBytes 16 }
  if all || fam == "users" then
    let accessKeys := chanPool.flatMap fun c => userPool.map fun u => userKey c u
    s := { s with userNames := ← genMap userPool genName 8, userAccess := ← genMap accessKeys genAccess 8,
                  maxUsers := ← pick [1, 10, 63] }
  if all || fam == "events" then s := { s with evReceiverAddr := 2 * (← rnd 128), evReceiverLun := ← rnd 4 }
  if all || fam == "ports" then
    let portKeys := [0, 1, 2].flatMap fun i => [0, 1, 5, 63].map fun c => portKey i c
    s := { s with ports := ← genMap portKeys genPort 8, sigClass := ← genMap portKeys (rnd 16) 8 }
  if all || fam == "power" then
    let powerKeys := fruPool.flatMap fun f => [0, 1, 2, 3].map fun t => f * 4 + t
    s := { s with power := ← genMap powerKeys genPower 8,
                  powerChannels := ← genMap [1, 2, 3, 16] (do pure { status := ← rnd 128 }) 8 }
  if all || fam == "picmg" then s := { s with picmgVersion := ← pick [0x22, 0x32, 0x14], maxFruId := ← rnd 8, ipmcFruId := ← rnd 3 }
  pure s

/-! ### canonical text -/

def normState (s : BmcState) : BmcState :=
  { s with bootParams := s.bootParams.norm, bootInvalid := s.bootInvalid.norm, bootMailbox := s.bootMailbox.norm,
           lan := s.lan.norm, lanRev := s.lanRev.norm, userNames := s.userNames.norm, userPasswords := s.userPasswords.norm,
           userEnabled := s.userEnabled.norm, userAccess := s.userAccess.norm, sensors := s.sensors.norm,
           leds := s.leds.norm, fans := s.fans.norm, ports := s.ports.norm, power := s.power.norm,
           frus := s.frus.norm, sigClass := s.sigClass.norm, powerChannels := s.powerChannels.norm,
           hpm := { s.hpm with compDescr := s.hpm.compDescr.norm, compGeneral := s.hpm.compGeneral.norm,
                               compVersion := s.hpm.compVersion.norm, compRollback := s.hpm.compRollback.norm,
                               compDeferred := s.hpm.compDeferred.norm },
           dcmi := { s.dcmi with caps := s.dcmi.caps.norm, power := s.dcmi.power.norm, sensors := s.dcmi.sensors.norm } }

def oneLine (s : String) : String := " ".intercalate ((s.splitOn "\n").map fun x => x.trimAscii.toString)
def dumpState (s : BmcState) : String := oneLine (reprStr (normState s))
def digest (s : BmcState) : String := toString (hash (dumpState s))

def sb (b : Bool) : String := if b then "1" else "0"
def so : Option Nat → String
  | some n => toString n
  | none => "None"
def names (l : List (Bool × String)) : String :=
  let xs := l.filterMap fun (b, n) => if b then some n else none
  if xs.isEmpty then "-" else ",".intercalate xs

def bootDevName : BootDev → String
  | .noOverride => "no_override" | .pxe => "pxe" | .defaultHdd => "default_hard_drive"
  | .defaultHddSafe => "default_hard_drive_safe_mode" | .diagnostic => "diagnostic_partition" | .cd => "cd"
  | .bios => "bios_setup" | .remoteFloppy => "remote_removable_media" | .remoteCd => "remote_cd"
  | .primaryRemote => "primary_remote_media" | .remoteHdd => "remote_hard_drive"
  | .floppy => "primary_removable_media_(usb)"

/-- IPMI table 22-: user privilege limit codes -/
def privName (c : Nat) : String :=
  match c with
  | 1 => "callback" | 2 => "user" | 3 => "operator" | 4 => "administrator" | 5 => "oem" | 15 => "no_access"
  | _ => "reserved"

def ipSourceName (c : Nat) : String :=
  match c with
  | 0 => "unknown" | 1 => "static" | 2 => "dhcp" | 3 => "bios" | 4 => "other" | _ => "py:KeyError"

def showDur : Option Nat → String
  | some d => toString (d * 10)
  | none => "-"
def showLedFn (f : LedFnView) : String :=
  (match f.kind with | 0 => "off" | 1 => "blink" | 2 => "on" | k => s!"fn{k}") ++ s!" {showDur f.offDur} {showDur f.onDur}"

/-- a string: hex of its characters (one byte each); characters above FFh as code points -/
def showText (cs : List Nat) : String :=
  if cs.all (· < 256) then toHex cs else "cp:" ++ ".".intercalate (cs.map toString)

def showResult : Result → String
  | .unit => "None"
  | .nat n => toString n
  | .bool b => sb b
  | .bytes l => toHex l
  | .optNatPair a b => s!"{so a} {so b}"
  | .natPair a b => s!"{a} {b}"
  | .deviceId d =>
    s!"id={d.deviceId} rev={d.revision} sdrs={sb d.providesSdrs} avail={sb d.updateInProgress} fw={d.fwMajor}.{d.fwMinor} ipmi={d.ipmiMajor}.{d.ipmiMinor} mfr={d.manufacturer} prod={d.product} fn=" ++
      names [(bitOf d.support 0, "sensor"), (bitOf d.support 1, "sdr_repository"), (bitOf d.support 2, "sel"),
             (bitOf d.support 3, "fru_inventory"), (bitOf d.support 4, "ipmb_event_receiver"),
             (bitOf d.support 5, "ipmb_event_generator"), (bitOf d.support 6, "bridge"), (bitOf d.support 7, "chassis")]
      ++ " aux=" ++ (match d.aux with | some a => toHex a | none => "None")
  | .watchdog w =>
    s!"use={w.timerUse} run={sb w.running} log={sb w.dontLog} pti={w.preInterrupt} act={w.action} int={w.preInterval} flags={w.expFlags} init={w.initial} pres={w.present}"
  | .chassis c =>
    s!"on={sb c.powerOn} ovl={sb c.overload} ilk={sb c.interlock} flt={sb c.fault} cflt={sb c.controlFault} pol={c.restorePolicy} idsup={sb c.idSupported} idst={c.idState} fp={so c.frontPanel} ev=" ++
      names [(c.evAcFailed, "ac_failed"), (c.evOverload, "overload"), (c.evInterlock, "interlock"),
             (c.evFault, "fault"), (c.evIpmiOn, "power_on_via_ipmi")]
      ++ " st=" ++ names [(c.intrusion, "intrusion"), (c.lockout, "front_panel_lockout"),
                          (c.driveFault, "drive_fault"), (c.coolingFault, "cooling_fault")]
  | .bootDev d => match d with | some d => bootDevName d | none => "py:KeyError"
  | .ip l => ".".intercalate (l.map toString)
  | .mac l => ":".intercalate (l.map hex2)
  | .ipSource c => ipSourceName c
  | .userAccess v =>
    s!"max={v.maxUsers} en={v.enabledCount} status={v.enableStatus} fixed={v.fixedNames} priv={privName v.privilege} msg={sb v.ipmiMsg} link={sb v.linkAuth} cb={sb v.callbackOnly}"
  | .thresholds l =>
    if l.isEmpty then "-" else ",".intercalate (l.map fun (i, v) => s!"{thrNames.getD i "?"}={v}")
  | .picmgProps v m f => s!"ver={v} max={m} fru={f}"
  | .power p => s!"dyn={sb p.dynamic} lvl={p.level} delay={p.delay} mult={p.multiplier} draw={toHex p.draw}"
  | .fanProps a b c d => s!"min={a} max={b} norm={c} local={sb d}"
  | .led x =>
    s!"avail={sb x.localAvail} ovr={sb x.overrideEn} lamp={sb x.lampTestEn} local={showLedFn x.localFn} {x.localColor} override="
      ++ (match x.override with | some (f, c) => s!"{showLedFn f} {c}" | none => "None")
      ++ " lampdur=" ++ (match x.lampDur with | some d => toString (d * 100) | none => "None")
  | .port l =>
    match l with
    | some p => s!"ch={p.channel} if={p.iface} flags={p.flags} type={p.linkType} sig={p.sigClass} ext={p.ext} grp={p.grouping} state={p.state}"
    | none => "nolink"
  | .pmGlobal g => s!"role={g % 2} mgmt={g / 2 % 2} payload={g / 4 % 2} fault={g / 8 % 2}"
  | .hpmStatus c cc => s!"cmd={c} cc={cc}"
  | .hpmCaps v comps => s!"ver={v} comps=" ++ natList ((List.range 8).filter fun i => bitOf comps i)
  | .rollback st e => s!"status={st} pct={so e}"
  | .text cs => showText cs
  | .dcmiCaps a b r d => s!"major={a} minor={b} rev={r} data={toHex d}"
  | .powerReading p =>
    s!"cur={p.current} min={p.minimum} max={p.maximum} avg={p.average} ts={p.timestamp} period={p.period} state={p.state}"
  | .natList l => natList l
  | .error cc => s!"cc:{cc}"

/-! ### parsing calls -/

def pNat (s : String) : Option Nat := s.toNat?
def pBool (s : String) : Option Bool := if s == "1" then some true else if s == "0" then some false else none
def pOpt (s : String) : Option (Option Nat) := if s == "n" then some none else s.toNat?.map some

def chassisNames : List String := ["power_down", "power_up", "power_cycle", "hard_reset", "diagnostic_interrupt", "soft_shutdown"]
def fruCtlNames : List String := ["cold_reset", "warm_reset", "graceful_reboot", "diagnostic_interrupt"]

def parseCall (op : String) (a : List String) : Option Call :=
  match op, a with
  | "get_device_id", [] => some .getDeviceId
  | "get_device_guid", [] => some .getDeviceGuid
  | "cold_reset", [] => some .coldReset
  | "warm_reset", [] => some .warmReset
  | "set_watchdog_timer", [u, ds, dl, act, pti, iv, fl, ini] => do
    some (.setWatchdog { timerUse := ← pNat u, dontStop := ← pBool ds, dontLog := ← pBool dl, action := ← pNat act,
                         preInterrupt := ← pNat pti, preInterval := ← pNat iv, clearFlags := ← pNat fl, initial := ← pNat ini })
  | "get_watchdog_timer", [] => some .getWatchdog
  | "reset_watchdog_timer", [] => some .resetWatchdog
  | "get_chassis_status", [] => some .getChassisStatus
  | "chassis_control", [o] => do some (.chassisControl (← pNat o))
  | "get_system_boot_options", [a, b, c] => do some (.getBootParam (← pNat a) (← pNat b) (← pNat c))
  | "set_system_boot_options", [a, h, i] => do some (.setBootParam (← pNat a) (← ofHex h) (← pBool i))
  | "get_boot_mode", [] => some .getBootMode
  | "get_boot_persistency", [] => some .getBootPersistency
  | "get_boot_device", [] => some .getBootDevice
  | "set_boot_options", [d, e, p] => do some (.setBootOptions (← BootDev.all[(← pNat d)]?) (← pBool e) (← pBool p))
  | "get_lan_config_param", [c, p, s, b, r] => do some (.getLanParam (← pNat c) (← pNat p) (← pNat s) (← pNat b) (← pBool r))
  | "set_lan_config_param", [c, p, h] => do some (.setLanParam (← pNat c) (← pNat p) (← ofHex h))
  | "get_ip_address", [c] => do some (.getIp (← pNat c))
  | "set_ip_address", [h, c] => do some (.setIp (← ofHex h) (← pNat c))
  | "get_ip_source", [c] => do some (.getIpSource (← pNat c))
  | "set_ip_source", [v, c] => do some (.setIpSource (← pNat v) (← pNat c))
  | "get_mac_address", [c] => do some (.getMac (← pNat c))
  | "get_vlan_id", [c] => do some (.getVlan (← pNat c))
  | "set_vlan_id", [v, c] => do some (.setVlan (← pNat v) (← pNat c))
  | "set_username", [u, h] => do some (.setUserName (← pNat u) (← ofHex h))
  | "get_username", [u] => do some (.getUserName (← pNat u))
  | "get_user_access", [u, c] => do some (.getUserAccess (← pNat u) (← pNat c))
  | "set_user_access", [u, m, l, cb, p, c, e, lim] => do
    some (.setUserAccess { userId := ← pNat u, ipmiMsg := ← pBool m, linkAuth := ← pBool l, callbackOnly := ← pBool cb,
                           privilege := ← pNat p, channel := ← pNat c, enableChange := ← pBool e, sessionLimit := ← pNat lim })
  | "set_user_password", [u, h] => do some (.setUserPassword (← pNat u) (← ofHex h))
  | "enable_user", [u] => do some (.enableUser (← pNat u))
  | "disable_user", [u] => do some (.disableUser (← pNat u))
  | "get_sensor_reading", [n, l] => do some (.getSensorReading (← pNat n) (← pNat l))
  | "set_sensor_thresholds", n :: l :: vals => do
    if vals.length ≠ 6 then none else some (.setSensorThresholds (← pNat n) (← pNat l) (← vals.mapM pOpt))
  | "get_sensor_thresholds", [n, l] => do some (.getSensorThresholds (← pNat n) (← pNat l))
  | "rearm_sensor_events", [n] => do some (.rearmSensorEvents (← pNat n))
  | "send_platform_event", [t, n, e, asserted, h] => do
    some (.sendPlatformEvent { evmRev := 4, sensorType := ← pNat t, sensorNum := ← pNat n, eventType := ← pNat e,
                               deassert := !(← pBool asserted), data := ← (if h == "default" then some [0] else ofHex h) })
  | "set_event_receiver", [x, l] => do some (.setEventReceiver (← pNat x) (← pNat l))
  | "get_event_receiver", [] => some .getEventReceiver
  | "get_picmg_properties", [] => some .getPicmgProperties
  | "fru_control", [f, o] => do some (.fruControl (← pNat f) (← pNat o))
  | "get_power_level", [f, t] => do some (.getPowerLevel (← pNat f) (← pNat t))
  | "get_fan_speed_properties", [f] => do some (.getFanSpeedProperties (← pNat f))
  | "set_fan_level", [f, l] => do some (.setFanLevel (← pNat f) (← pNat l))
  | "get_fan_level", [f] => do some (.getFanLevel (← pNat f))
  | "get_led_state", [f, l] => do some (.getLedState (← pNat f) (← pNat l))
  | "set_led_state", [f, l, kind, x, y, color] => do
    let cmd ← match kind with
      | "off" => some (LedCmd.override .off (← pNat color))
      | "on" => some (LedCmd.override .on (← pNat color))
      | "blink" => some (LedCmd.override (.blink (← pNat x) (← pNat y)) (← pNat color))
      | "lamp" => some (LedCmd.lampTest (← pNat x) (← pNat color))
      | _ => none
    some (.setLedState (← pNat f) (← pNat l) cmd)
  | "set_fru_activation", [f] => do some (.setFruActivation (← pNat f) true)
  | "set_fru_deactivation", [f] => do some (.setFruActivation (← pNat f) false)
  | "set_fru_activation_policy", [f, c] => do some (.setFruActivationPolicy (← pNat f) (← pNat c))
  | "set_fru_activation_lock", [f] => do some (.fruLockNamed 0 (← pNat f))
  | "clear_fru_activation_lock", [f] => do some (.fruLockNamed 1 (← pNat f))
  | "set_fru_deactivation_lock", [f] => do some (.fruLockNamed 2 (← pNat f))
  | "clear_fru_deactivation_lock", [f] => do some (.fruLockNamed 3 (← pNat f))
  | "set_port_state", [i, c, fl, t, e, g, st] => do
    some (.setPortState (← pNat i) (← pNat c)
      { hasLink := true, flags := ← pNat fl, linkType := ← pNat t, ext := ← pNat e, grouping := ← pNat g, state := ← pNat st })
  | "set_port_state", [i, c, fl, t, e, g, st, w] => do
    -- w = 1: the whole link type in link_descr.type (TYPE_OEMx), sig_class 0; w = 0: type / sig_class nibbles
    let p : Port := { hasLink := true, flags := ← pNat fl, linkType := ← pNat t, ext := ← pNat e, grouping := ← pNat g, state := ← pNat st }
    if (← pBool w) then some (.setPortStateType8 (← pNat i) (← pNat c) p) else some (.setPortState (← pNat i) (← pNat c) p)
  | "get_component_property", [id] => do some (.getComponentDescription (← pNat id))   -- selector: PROPERTY_DESCRIPTION_STRING
  | "get_port_state", [c, i] => do some (.getPortState (← pNat c) (← pNat i))
  | "get_pm_global_status", [] => some .getPmGlobalStatus
  | "get_power_channel_status", [s] => do some (.getPowerChannelStatus (← pNat s))
  | "send_channel_power", [c, e, l, p, b] => do
    some (.sendChannelPower (← pNat c) (← pBool e) (← pNat l) (← pNat p) (← pNat b))
  | "send_pm_heartbeat", [] => some .sendPmHeartbeat
  | "set_signaling_class", [i, c, v] => do some (.setSignalingClass (← pNat i) (← pNat c) (← pNat v))
  | "get_signaling_class", [i, c] => do some (.getSignalingClass (← pNat i) (← pNat c))
  | "get_upgrade_status", [] => some .getUpgradeStatus
  | "get_target_upgrade_capabilities", [] => some .getTargetUpgradeCapabilities
  | "query_selftest_results", [] => some .querySelftestResults
  | "query_rollback_status", [] => some .queryRollbackStatus
  | "get_dcmi_capabilities", [sel] => do some (.getDcmiCapabilities (← pNat sel))
  | "get_power_reading", [m, a] => do some (.getPowerReading (← pNat m) (← pNat a))
  | _, _ =>
    if op.startsWith "chassis_control_" then
      match chassisNames.idxOf? (op.drop 16).toString, a with
      | some i, [] => some (.chassisControlNamed i)
      | _, _ => none
    else if op.startsWith "fru_control_" then
      match fruCtlNames.idxOf? (op.drop 12).toString, a with
      | some i, [f] => (pNat f).map (.fruControlNamed i)
      | _, _ => none
    else none

/-- composite HPM queries (several exchanges in the library): judged against the oracle only -/
def specExtra (op : String) (a : List String) (s : BmcState) : Option String :=
  match op, a with
  | "get_component_properties", [id] => do
    let id ← pNat id
    if has_component id s then
      let (kinds, d) := component_properties id s
      some s!"props={natList kinds} descr={showText d}"
    else some s!"cc:{ccHpmInvalidComponent}"
  | "find_component_id_by_descriptor", [h] => do
    some (so (find_component (← ofHex h) s))
  | "get_dcmi_sensor_record_ids", [] => some (natList (get_dcmi_sensor_record_ids s))
  | _, _ => none

/-- the model of one call and whether its arguments are inside `Call.InRange`: `set_ip_address_text <hex> <ch>` runs
the model of the textual argument; every other line goes through `parseCall` -/
def modelOf (v : PyIpmi.Model.Api.Variant) (op : String) (args : List String) :
    Option (PyIpmi.Model.Api.Exchange × Bool) :=
  match op, args with
  | "set_ip_address_text", [t, c] => do
    let text := (← ofHex t).map Char.ofNat
    let ch ← pNat c
    let inr := match PyIpmi.Model.Api.ipAddressToData text with
      | .ok ip => inRangeB (.setIp ip ch)
      | _ => false
    some (PyIpmi.Model.Api.api_set_ip_address_text text ch, inr)
  | _, _ => (parseCall op args).map fun c => (PyIpmi.Model.Api.opOfV v c, inRangeB c)

/-- operations modelled as a SEQUENCE of exchanges (outside `Spec.Bmc.Call`): run, requests, inside the domain of
their theorem (`read_get_dcmi_sensor_record_ids_partial`: at most 8 sensors per entity) -/
def seqModelOf (op : String) (args : List String) :
    Option ((BmcState → BmcState × Outcome Result) × List (Outcome Req) × (BmcState → Bool)) :=
  match op, args with
  | "get_dcmi_sensor_record_ids", [] =>
    some (PyIpmi.Model.Api.api_get_dcmi_sensor_record_ids, PyIpmi.Model.Api.dcmiSensorRequests,
          fun s => [0x40, 0x41, 0x42].all fun e => decide ((get_dcmi_sensors 1 e s).length ≤ 8))
  | _, _ => none

def showReq : Outcome Req → String
  | .ok r => s!"{r.netfn} {r.lun} {r.cmd} {toHex r.data}"
  | e => e.tag

def showRun : BmcState × Outcome Result → String
  | (s', .ok r) => digest s' ++ " " ++ showResult r
  | (s', e) => digest s' ++ " " ++ e.tag

/-! ### the loop -/

abbrev Insts := Array BmcState

def step (st : Insts) (line : String) : Insts × String :=
  match tokens line with
  | ["ping"] => (st, "pong")
  | ["ops"] => (st, " ".intercalate PyIpmi.Model.Api.modelledOps)
  | ["new", i, seed] =>
    match pNat i, pNat seed with
    | some i, some seed =>
      if i < 4 then
        let s := (genState.run (seed * 2654435761 + 12345)).1
        let st := if st.size ≤ i then st ++ Array.replicate (i + 1 - st.size) ({} : BmcState) else st
        (st.set! i s, "ok")
      else (st, "bad-op")
    | _, _ => (st, "bad-op")
  | ["mut", i, seed, fam] =>
    match pNat i, pNat seed with
    | some i, some seed =>
      match st[i]? with
      | some s => (st.set! i ((mutate fam s).run (seed * 40503 + 977)).1, "ok")
      | none => (st, "bad-op")
    | _, _ => (st, "bad-op")
  | ["req", i, nf, lun, cmd, h] =>
    match pNat i, pNat nf, pNat lun, pNat cmd, ofHex h with
    | some i, some nf, some lun, some cmd, some data =>
      match st[i]? with
      | some s =>
        let (s', rsp) := handle s { netfn := nf, lun := lun, cmd := cmd, data := data }
        (st.set! i s', toHex rsp)
      | none => (st, "bad-op")
    | _, _, _, _, _ => (st, "bad-op")
  | ["digest", i] =>
    match (pNat i).bind (st[·]?) with
    | some s => (st, digest s)
    | none => (st, "bad-op")
  | ["fanrev", i, fru] =>
    match (pNat i).bind (st[·]?), pNat fru with
    | some s, some fru => (st, if (get_fan fru s).r3 then "R3.0" else "R1.0/R2.0")
    | _, _ => (st, "bad-op")
  | ["dump", i] =>
    match (pNat i).bind (st[·]?) with
    | some s => (st, dumpState s)
    | none => (st, "bad-op")
  | "spec" :: i :: op :: args =>
    match (pNat i).bind (st[·]?), parseCall op args with
    | some s, some c => let (s', r) := run c s; (st, digest s' ++ " " ++ showResult r)
    | some s, none =>
      match specExtra op args s with
      | some r => (st, digest s ++ " " ++ r)
      | none => (st, "bad-op")
    | _, _ => (st, "bad-op")
  | "specdump" :: i :: op :: args =>
    match (pNat i).bind (st[·]?), parseCall op args with
    | some s, some c => (st, dumpState (run c s).1)
    | _, _ => (st, "bad-op")
  | "model" :: i :: variant :: op :: args =>
    match (pNat i).bind (st[·]?), seqModelOf op args with
    | some s, some (f, _, _) => (st, showRun (f s))
    | _, _ =>
    match (pNat i).bind (st[·]?), modelOf (.ofLetters variant) op args with
    | some s, some (x, _) =>
      match x.run s with
      | (s', .ok r) => (st, digest s' ++ " " ++ showResult r)
      | (s', e) => (st, digest s' ++ " " ++ e.tag)
    | _, _ => (st, "bad-op")
  | "modelx" :: i :: variant :: op :: args =>
    -- model + modelreq + domain in one round trip, separated by " | " (a sequence of requests: separated by " ; ")
    match (pNat i).bind (st[·]?), seqModelOf op args with
    | some s, some (f, reqs, dom) =>
      (st, showRun (f s) ++ " | " ++ " ; ".intercalate (reqs.map showReq) ++ " | " ++ sb (dom s) ++ " " ++ sb (wfB s))
    | _, _ =>
    match (pNat i).bind (st[·]?), modelOf (.ofLetters variant) op args with
    | some s, some (x, inr) =>
      let m := match x.run s with
        | (s', .ok r) => digest s' ++ " " ++ showResult r
        | (s', e) => digest s' ++ " " ++ e.tag
      let q := match x.request with
        | .ok r => s!"{r.netfn} {r.lun} {r.cmd} {toHex r.data}"
        | e => e.tag
      (st, m ++ " | " ++ q ++ " | " ++ sb inr ++ " " ++ sb (wfB s))
    | _, _ => (st, "bad-op")
  | "domain" :: i :: op :: args =>
    match (pNat i).bind (st[·]?), parseCall op args with
    | some s, some c => (st, sb (inRangeB c) ++ " " ++ sb (wfB s))
    | _, _ => (st, "bad-op")
  | "modelreq" :: variant :: op :: args =>
    match seqModelOf op args with
    | some (_, reqs, _) => (st, " ; ".intercalate (reqs.map showReq))
    | none =>
    match modelOf (.ofLetters variant) op args with
    | some (x, _) =>
      match x.request with
      | .ok r => (st, s!"{r.netfn} {r.lun} {r.cmd} {toHex r.data}")
      | e => (st, e.tag)
    | none => (st, "bad-op")
  | _ => (st, "bad-op")

def main : IO Unit := do
  loopS (← IO.getStdin) (← IO.getStdout) step (#[] : Insts)
