/-
  Line-protocol driver for C10: the reference FRU device (Spec/FruDevice.lean) and the model of
  the FRU transfer code (Model/FruXfer.lean) with the generated loop constants.

    dev <limit> <rejectCc> <short 0|1> <wmax> <id>:<hex>*   set the device (kept as initial state)   -> ok
    x <cmd> <hex>                                           one request to the current device        -> <hex>
    dump                                                    current contents                         -> <id>:<hex>*
    faults <k>:c:<cc>|<k>:s:<n>|<k>:a:<n> …  (or -)   install a fault plan on the CURRENT device, request counter := 0  -> ok
                                            (request k answers <cc> unprocessed / write k stores only n bytes /
                                             write k is stored as sent but acknowledged with count n)
    snap                                    INITIAL := CURRENT (histories: the model runs one step from here)  -> ok
    run <flags 0..127> <op> …    model on the INITIAL device -> <outcome> | <trace> | <contents>
        flags: bit 0 = get_fru_multirecord_area as shipped, bit 1 = _read_fru_area rejects area length 0,
               bit 2 = read_fru_data honours a count / an offset given alone (fixes/C10-2.diff),
               bits 3..6 = get_fru_{chassis,board,product,multirecord}_area return None for an absent area
        read <id> <off|n> <cnt|n>    read_fru_data           outcome  ok <hex>       (n = argument left out / None)
        full <id>                    read_fru_data_full
        write <id> <off> <hex> [wl]  write_fru_data          outcome  ok -     (wl: the caller set Fru.write_length = wl;
                                                                                default: the generated constant)
        hdr <id>                     get_fru_inventory_header         ok <i>,<c>,<b>,<p>,<m>   (n = None)
        area <id> <c|b|p>            get_fru_{chassis,board,product}_area      ok <hex> | ok n      (n = None)
        mr <id>                      get_fru_multirecord_area                  ok <hex> | ok n
        inv <id>                     get_fru_inventory                ok <c> <b> <p> <m>       (n = absent)
    cfg                                                     generated constants
    trace ::= <cmd>:<hex>><hex>,…   (- when empty)
-/
import PyIpmi.Base.Proto
import PyIpmi.Model.FruXfer
import PyIpmi.Spec.FruDevice
import PyIpmi.Gen.Loops10
open PyIpmi PyIpmi.Proto PyIpmi.FruXfer PyIpmi.Spec.Fru

structure St where
  init : FaultyDev
  cur : FaultyDev

def parseFault (s : String) : Option (Nat × Fault) :=
  match s.splitOn ":" with
  | [k, "c", v] => do
    let k ← k.toNat?
    let v ← v.toNat?
    pure (k, .cc v)
  | [k, "s", v] => do
    let k ← k.toNat?
    let v ← v.toNat?
    pure (k, .short v)
  | [k, "a", v] => do
    let k ← k.toNat?
    let v ← v.toNat?
    pure (k, .ack v)
  | _ => none

def parseFru (s : String) : Option (Nat × List Nat) :=
  match s.splitOn ":" with
  | [i, h] => do
    let id ← i.toNat?
    let bs ← ofHex h
    pure (id, bs)
  | _ => none

def showFrus (l : List (Nat × List Nat)) : String :=
  if l.isEmpty then "-" else " ".intercalate (l.map fun (i, c) => s!"{i}:{toHex c}")

def showTrace (t : List Xchg) : String :=
  if t.isEmpty then "-" else
    ",".intercalate (t.map fun x => s!"{x.req.cmd}:{toHex x.req.payload}>{toHex x.rsp}")

def optNat (s : String) : Option (Option Nat) :=
  if s == "n" then some none else s.toNat?.map some

def showOpt (o : Option Nat) : String :=
  match o with
  | none => "n"
  | some v => toString v

def showOptBytes (o : Option (List Nat)) : String :=
  match o with
  | none => "n"
  | some v => toHex v

def finish {α} (r : Res FaultyDev α) (f : α → String) : String :=
  let o := match r.out with
    | .ok a => "ok " ++ f a
    | e => e.tag
  s!"{o} | {showTrace r.w.trace} | {showFrus r.w.dev.dev.frus}"

def cfg : Cfg := PyIpmi.Gen.Loops10.fruCfg

def runOp (d : FaultyDev) (v : Var) (op : List String) : String :=
  let respond := respondF
  let w : World FaultyDev := ⟨d, []⟩
  match op with
  | ["read", id, off, cnt] =>
    match id.toNat?, optNat off, optNat cnt with
    | some id, some off, some cnt => finish (readFruDataV v.rangeFix cfg respond w off cnt id) toHex
    | _, _, _ => "bad-op"
  | ["full", id] =>
    match id.toNat? with
    | some id => finish (readFruDataFull cfg respond w id) toHex
    | _ => "bad-op"
  | ["write", id, off, h] =>
    match id.toNat?, off.toNat?, ofHex h with
    | some id, some off, some data => finish (writeFruData cfg respond w data off id) (fun _ => "-")
    | _, _, _ => "bad-op"
  | ["write", id, off, h, wl] =>
    -- the caller assigned the public attribute `write_length` before the call
    match id.toNat?, off.toNat?, ofHex h, wl.toNat? with
    | some id, some off, some data, some wl =>
      finish (writeFruData { cfg with writeLen := wl } respond w data off id) (fun _ => "-")
    | _, _, _, _ => "bad-op"
  | ["hdr", id] =>
    match id.toNat? with
    | some id => finish (getHeader cfg respond w id) fun h =>
        ",".intercalate [showOpt h.internal, showOpt h.chassis, showOpt h.board, showOpt h.product, showOpt h.multi]
    | _ => "bad-op"
  | ["area", id, a] =>
    let ar : Option Area := if a == "c" then some .chassis else if a == "b" then some .board
      else if a == "p" then some .product else none
    match id.toNat?, ar with
    | some id, some ar => finish (getInfoArea cfg respond v w ar id) showOptBytes
    | _, _ => "bad-op"
  | ["mr", id] =>
    match id.toNat? with
    | some id => finish (getMultirecord cfg respond v w id) showOptBytes
    | _ => "bad-op"
  | ["inv", id] =>
    match id.toNat? with
    | some id => finish (getInventory cfg respond v w id) fun i =>
        " ".intercalate [showOptBytes i.chassis, showOptBytes i.board, showOptBytes i.product, showOptBytes i.multi]
    | _ => "bad-op"
  | _ => "bad-op"

def handle (s : St) (line : String) : St × String :=
  match tokens line with
  | ["ping"] => (s, "pong")
  | ["cfg"] => (s, s!"{cfg.initReq} {cfg.dec} {natList cfg.caught} {cfg.writeLen}")
  | "dev" :: limit :: cc :: short :: wmax :: frus =>
    match limit.toNat?, cc.toNat?, short.toNat?, wmax.toNat?, frus.mapM parseFru with
    | some l, some c, some sh, some wm, some fs =>
      let d : FaultyDev := ⟨⟨fs, l, c, sh != 0, wm⟩, 0, []⟩
      (⟨d, d⟩, "ok")
    | _, _, _, _, _ => (s, "bad-op")
  | ["x", cmd, h] =>
    match cmd.toNat?, ofHex h with
    | some c, some p =>
      let r := respondF s.cur c p
      ({ s with cur := r.1 }, toHex r.2)
    | _, _ => (s, "bad-op")
  | ["dump"] => (s, showFrus s.cur.dev.frus)
  | ["snap"] => ({ s with init := s.cur }, "ok")
  | "faults" :: fs =>
    match (if fs == ["-"] then some [] else fs.mapM parseFault) with
    | some l => ({ s with cur := { s.cur with seen := 0, faults := l } }, "ok")
    | none => (s, "bad-op")
  | "run" :: sh :: op =>
    -- flags: bit 0 = get_fru_multirecord_area as shipped, bit 1 = _read_fru_area checks the area length,
    -- bit 2 = read_fru_data range repair, bits 3..6 = absent-area guard of the chassis/board/product/multirecord getter
    match sh.toNat? with
    | some v =>
      let b := fun (k : Nat) => v / 2 ^ k % 2 != 0
      (s, runOp s.init ⟨b 0, b 1, b 2, b 3, b 4, b 5, b 6⟩ op)
    | none => (s, "bad-op")
  | _ => (s, "bad-op")

def main : IO Unit := do
  let d : FaultyDev := ⟨⟨[], 0, 0, false, 0⟩, 0, []⟩
  loopS (← IO.getStdin) (← IO.getStdout) handle ⟨d, d⟩
