/-
  Line-protocol driver for C13 (retry / reservation loops on outcome scripts).

    chunk <budget> <res0> <letters> <tail>            get_sdr_chunk_helper
    clear <budget> <res|-> <letters> <tail>           clear_repository_helper
    clearloop <ctrl> <budget> <res0> <letters> <tail> _clear_repository
    send <asShipped:1|0> <budget> <letters> <tail>    Ipmi.send_message
    consts                                            constants read from the source

  letters ::= - | L(,L)*      L ::= C | P | R | T | U | B | O<code>
  answer  ::= <outcome tag> <trace>      trace ::= - | E(,E)*
  E ::= r<granted> | c<ctrl>:<res>:<L> | k<res>:<L> | x<L>
-/
import PyIpmi.Base.Proto
import PyIpmi.Model.Retry
import PyIpmi.Gen.Loops11
open PyIpmi PyIpmi.Proto PyIpmi.Model.Retry

def K13 : Consts := PyIpmi.Gen.Loops11.consts

def parseLetter (s : String) : Option Letter :=
  if s == "C" then some .completed
  else if s == "P" then some .inProgress
  else if s == "R" then some .resCancelled
  else if s == "T" then some .timeout
  else if s == "U" then some .respUnavailable
  else if s == "B" then some .nodeBusy
  else if s.startsWith "O" then (s.drop 1).toNat?.map .other
  else none

def parseLetters (s : String) : Option (List Letter) :=
  if s == "-" then some [] else (s.splitOn ",").mapM parseLetter

def showLetter : Letter → String
  | .completed => "C"
  | .inProgress => "P"
  | .resCancelled => "R"
  | .timeout => "T"
  | .respUnavailable => "U"
  | .nodeBusy => "B"
  | .other c => s!"O{c}"

def showEv : Ev → String
  | .reserve g => s!"r{g}"
  | .clear c r l => s!"c{c}:{r}:{showLetter l}"
  | .chunk r l => s!"k{r}:{showLetter l}"
  | .xfer l => s!"x{showLetter l}"

def showTrace (t : List Ev) : String :=
  if t.isEmpty then "-" else ",".intercalate (t.map showEv)

def answer {α : Type} (p : Env × Outcome α) : String :=
  s!"{p.2.tag} {showTrace p.1.trace}"

def handleC13 (line : String) : String :=
  match tokens line with
  | ["ping"] => "pong"
  | ["consts"] =>
    let k := K13
    " ".intercalate ([k.ccOk, k.chunkRetryDefault, k.chunkRenew, k.chunkRetry1, k.chunkRetry2,
      k.clearRetryDefault, k.clearRenew, k.ctrlInitiate, k.ctrlStatus, k.statusInProgress,
      k.statusCompleted, k.sendRetryDefault, k.sendBusy].map toString)
  | ["chunk", b, r, ls, t] =>
    match b.toNat?, r.toNat?, parseLetters ls, parseLetter t with
    | some b, some r, some ls, some t => answer (runChunk K13 b r ⟨ls, t⟩)
    | _, _, _, _ => "bad-op"
  | ["clear", b, r, ls, t] =>
    match b.toNat?, (if r == "-" then some none else r.toNat?.map some), parseLetters ls, parseLetter t with
    | some b, some rv, some ls, some t => answer (runClear K13 b rv ⟨ls, t⟩)
    | _, _, _, _ => "bad-op"
  | ["clearloop", c, b, r, ls, t] =>
    match c.toNat?, b.toNat?, r.toNat?, parseLetters ls, parseLetter t with
    | some c, some b, some r, some ls, some t => answer (runClearLoop K13 c b r ⟨ls, t⟩)
    | _, _, _, _, _ => "bad-op"
  | ["send", v, b, ls, t] =>
    match v.toNat?, b.toNat?, parseLetters ls, parseLetter t with
    | some v, some b, some ls, some t => answer (runSend K13 ⟨v != 0⟩ b ⟨ls, t⟩)
    | _, _, _, _ => "bad-op"
  | _ => "bad-op"

def main : IO Unit := do
  loop (← IO.getStdin) (← IO.getStdout) handleC13
