/-
  Line-protocol driver for C13 (retry / reservation loops on outcome scripts).

    chunk <budget> <res0> <letters> <tail>            get_sdr_chunk_helper
    clear <budget> <res|-> <letters> <tail>           clear_repository_helper
    clearloop <ctrl> <budget> <res0> <letters> <tail> _clear_repository
    chunkr <budget> <res0> <rplan> <letters> <tail>   get_sdr_chunk_helper, reserve_fn outcomes planned (f<code> = refused)
    clearr <budget> <res|-> <rplan> <letters> <tail>  clear_repository_helper, the same
    send <asShipped:1|0> <budget> <letters> <tail>    Ipmi.send_message
    chunkx <budget> <res0> <rplan> <letters> <tail>   the same three over the alphabet with N = NO ANSWER (the callable
    clearx <budget> <res|-> <rplan> <letters> <tail>  raises IpmiTimeoutError; Model/RetryNoAnswer.lean); a refused
    sendx <asShipped:1|0> <budget> <letters> <tail>   reserve shows as f<code>, an unanswered one as f-1
    consts                                            constants read from the source
    data <store r|d> <stale 1|0> <id> <res|-> <res0> <recs> <letters> <tail>
                                                      get_repository_sdr / get_device_sdr (get_sdr_data_helper over the
                                                      chunk reader) against the scripted device `SdrXfer.scriptX`
    dlist <store r|d> <stale 1|0> <fuel> <res0> <recs> <letters> <tail>
                                                      sdr_repository_entries / device_sdr_entries
         recs ::= - | <hex>,<hex>,…   records the device serves;  res0 = last reservation id it granted;
         stale = `Variant.staleRes` (1 = the renewed id is dropped, as probed on the real code); the other
         components of the variant are the ones read from the source

    selentry <floor|-> <empty 0|1> <rid> <res> <res0> <rec hex> <next> <rplan> <letters> <tail>
                                                      Sel.get_sel_entry(rid, res) against `SelXfer.scriptSend`
    selgac <floor|-> <empty 0|1> <b|f><n> <rid> <res0> <rec hex> <next> <rplan> <letters> <tail>
                                                      Sel.get_and_clear_sel_entry(rid[, retry]); b<n> = the tree has a
                                                      retry budget, n rounds; f<n> = `while True`, n rounds of fuel
         floor = `Variant.floor` as probed (- = none); empty = `Variant.emptyStop` as probed (1 = RetryError on a
         completed answer without a record byte); rplan = outcomes of the Reserve SEL requests (then granted);
         letters / tail = outcomes of Get / Delete SEL Entry, here also S<k> = completed, the answer to a Get carries
         at most k record bytes (S0 = `00 next-lo next-hi`); the device holds the one record <rec hex>
         outcome ::= ok=<hex>:<next> | ok=<hex> | <error tag>
         E ::= r<granted> | f<code> (Reserve refused) | g<res>:<rid>:<off>:<len>:<cc>:<record bytes served>
             | d<res>:<rid>:<cc> | ?

  letters ::= - | L(,L)*      L ::= C | P | R | T | U | B | O<code>
  answer  ::= <outcome tag> <trace>      trace ::= - | E(,E)*
  E ::= r<granted> | c<ctrl>:<res>:<L> | k<res>:<L> | x<L>
  data / dlist:  outcome ::= ok=<next>:<hex> | ok=<hex>;<hex>;… | <error tag>
     E ::= r<granted> | g<res>:<id>:<off>:<cnt>:<cc>   (requests to the store being read)
         | w<granted> | h<res>:<id>:<off>:<cnt>:<cc>   (requests to the other store)  | ?
-/
import PyIpmi.Base.Proto
import PyIpmi.Model.Retry
import PyIpmi.Model.RetryNoAnswer
import PyIpmi.Model.SdrXfer
import PyIpmi.Model.SelScript
import PyIpmi.Gen.Loops11
import PyIpmi.Gen.Loops10
open PyIpmi PyIpmi.Proto PyIpmi.Model.Retry

def K13 : Consts := PyIpmi.Gen.Loops11.consts

def parseLetter (s : String) : Option Letter :=
  if s == "C" then some .completed
  else if s == "P" then some .inProgress
  else if s == "R" then some .resCancelled
  else if s == "T" then some .timeout
  else if s == "U" then some .respUnavailable
  else if s == "B" then some .nodeBusy
  else if s.startsWith "O" then (s.drop 1).toNat?.map .other
  else none

def parseLetters (s : String) : Option (List Letter) :=
  if s == "-" then some [] else (s.splitOn ",").mapM parseLetter

def showLetter : Letter → String
  | .completed => "C"
  | .inProgress => "P"
  | .resCancelled => "R"
  | .timeout => "T"
  | .respUnavailable => "U"
  | .nodeBusy => "B"
  | .other c => s!"O{c}"

def showEv : Ev → String
  | .reserve g => s!"r{g}"
  | .clear c r l => s!"c{c}:{r}:{showLetter l}"
  | .chunk r l => s!"k{r}:{showLetter l}"
  | .xfer l => s!"x{showLetter l}"
  | .reserveFailed c => s!"f{c}"

def showTrace (t : List Ev) : String :=
  if t.isEmpty then "-" else ",".intercalate (t.map showEv)

def answer {α : Type} (p : Env × Outcome α) : String :=
  s!"{p.2.tag} {showTrace p.1.trace}"

/-! the alphabet with N = no answer (IpmiTimeoutError raised by the callable) -/
open PyIpmi.Model.RetryNA in
def parseLetterX (s : String) : Option LetterX :=
  if s == "N" then some .noAnswer else (parseLetter s).map .ans

open PyIpmi.Model.RetryNA in
def parseLettersX (s : String) : Option (List LetterX) :=
  if s == "-" then some [] else (s.splitOn ",").mapM parseLetterX

open PyIpmi.Model.RetryNA in
def showLetterX : LetterX → String
  | .ans l => showLetter l
  | .noAnswer => "N"

open PyIpmi.Model.RetryNA in
def showEvX : EvX → String
  | .reserve g => s!"r{g}"
  | .clear c r l => s!"c{c}:{r}:{showLetterX l}"
  | .chunk r l => s!"k{r}:{showLetterX l}"
  | .xfer l => s!"x{showLetterX l}"
  | .reserveFailed (.ans l) => s!"f{l.code}"
  | .reserveFailed .noAnswer => "f-1"

open PyIpmi.Model.RetryNA in
def answerNA {α : Type} (p : EnvX × Outcome α) : String :=
  let t := if p.1.trace.isEmpty then "-" else ",".intercalate (p.1.trace.map showEvX)
  s!"{p.2.tag} {t}"

/-! record-chunk fetching above the chunk helper, on the scripted device -/
open PyIpmi.Model.SdrXfer PyIpmi.Spec.Sdr in
def showXchg13 (s : Store) (e : Req × Rsp) : String :=
  let cc : Nat := match e.2 with
    | .err c => c
    | _ => 0
  match e with
  | (.reserve s', .reserved id) => (if s' = s then "r" else "w") ++ toString id
  | (.get s' res id off cnt, _) => (if s' = s then "g" else "h") ++ s!"{res}:{id}:{off}:{cnt}:{cc}"
  | _ => "?"

open PyIpmi.Model.SdrXfer PyIpmi.Spec.Sdr in
def answerX {α : Type} (s : Store) (r : (ScriptDev × List (Req × Rsp)) × Outcome α) (f : α → String) : String :=
  let o := match r.2 with
    | .ok a => "ok=" ++ f a
    | e => e.tag
  let t := if r.1.2.isEmpty then "-" else ",".intercalate (r.1.2.map (showXchg13 s))
  s!"{o} {t}"

def parseRecs13 (s : String) : Option (List (List Nat)) :=
  if s == "-" then some [] else (s.splitOn ",").mapM ofHex

open PyIpmi.Model.SdrXfer PyIpmi.Spec.Sdr in
def parseStore13 (s : String) : Option Store :=
  if s == "r" then some .repo else if s == "d" then some .dev else none

open PyIpmi.Model.SdrXfer in
def variant13 (stale : Nat) : Variant := { PyIpmi.Gen.Loops11.variantRead with staleRes := stale != 0 }

def XK13 : PyIpmi.Model.SdrXfer.XConsts := PyIpmi.Gen.Loops11.xconsts

open PyIpmi.Model.SdrXfer PyIpmi.Spec.Sdr in
def handleSdr13 (toks : List String) : Option String :=
  match toks with
  | ["data", st, v, id, res, r0, recs, ls, t] => do
    let st ← parseStore13 st
    let v ← v.toNat?
    let id ← id.toNat?
    let res? ← (if res == "-" then some none else res.toNat?.map some)
    let r0 ← r0.toNat?
    let recs ← parseRecs13 recs
    let ls ← parseLetters ls
    let t ← parseLetter t
    pure (answerX st (getSdrData K13 XK13 (variant13 v) (traced scriptX) st (⟨⟨ls, t⟩, r0, recs⟩, []) id res?)
      (fun (p : Nat × List Nat) => s!"{p.1}:{toHex p.2}"))
  | ["dlist", st, v, fuel, r0, recs, ls, t] => do
    let st ← parseStore13 st
    let v ← v.toNat?
    let fuel ← fuel.toNat?
    let r0 ← r0.toNat?
    let recs ← parseRecs13 recs
    let ls ← parseLetters ls
    let t ← parseLetter t
    pure (answerX st (sdrList K13 XK13 (variant13 v) (traced scriptX) st fuel (⟨⟨ls, t⟩, r0, recs⟩, []))
      (fun (l : List (List Nat)) => if l.isEmpty then "-" else ";".intercalate (l.map toHex)))
  | _ => none

/-! the SEL loops on the scripted SEL device -/
def u16at (l : List Nat) (i : Nat) : Nat := l.getD i 0 + 256 * l.getD (i + 1) 0

def showSelXchg (x : PyIpmi.FruXfer.Xchg) : String :=
  let cc := x.rsp.getD 0 0
  let p := x.req.payload
  if x.req.cmd == 0x42 then (if cc == 0 then s!"r{u16at x.rsp 1}" else s!"f{cc}")
  else if x.req.cmd == 0x43 then s!"g{u16at p 0}:{u16at p 2}:{p.getD 4 0}:{p.getD 5 0}:{cc}:{x.rsp.length - 3}"
  else if x.req.cmd == 0x46 then s!"d{u16at p 0}:{u16at p 2}:{cc}"
  else "?"

def answerSel {α : Type} (r : PyIpmi.FruXfer.Res PyIpmi.SelXfer.ScriptSel α) (f : α → String) : String :=
  let o := match r.out with
    | .ok a => "ok=" ++ f a
    | e => e.tag
  let t := if r.w.trace.isEmpty then "-" else ",".intercalate (r.w.trace.map showSelXchg)
  s!"{o} {t}"

def parseFloor (s : String) : Option (Option Int) :=
  if s == "-" then some none else s.toInt?.map some

/-- a letter of the SEL alphabet: L, or S<k> = completed with at most k record bytes -/
def parseSelLetter (s : String) : Option (Letter × Option Nat) :=
  if s.startsWith "S" then (s.drop 1).toNat?.map fun k => (.completed, some k)
  else (parseLetter s).map fun l => (l, none)

def parseSelLetters (s : String) : Option (List (Letter × Option Nat)) :=
  if s == "-" then some [] else (s.splitOn ",").mapM parseSelLetter

open PyIpmi.SelXfer in
def handleSel13 (toks : List String) : Option String :=
  match toks with
  | ["selentry", fl, em, rid, res, r0, rec, nx, rp, ls, t] => do
    let fl ← parseFloor fl
    let em ← em.toNat?
    let rid ← rid.toNat?
    let res ← res.toNat?
    let r0 ← r0.toNat?
    let rec ← ofHex rec
    let nx ← nx.toNat?
    let rp ← parseLetters rp
    let ls ← parseSelLetters ls
    let t ← parseSelLetter t
    pure (answerSel (runEntry PyIpmi.Gen.Loops10.selCfg ⟨fl, none, em != 0⟩
        ⟨⟨ls.map (·.1), t.1⟩, ⟨ls.map (·.2), t.2⟩, rp, r0, rec, nx⟩ rid res)
      (fun (p : List Nat × Nat) => s!"{toHex p.1}:{p.2}"))
  | ["selgac", fl, em, bn, rid, r0, rec, nx, rp, ls, t] => do
    let fl ← parseFloor fl
    let em ← em.toNat?
    let n ← (bn.drop 1).toString.toNat?
    let budget : Option Nat := if bn.startsWith "b" then some n else none
    let rid ← rid.toNat?
    let r0 ← r0.toNat?
    let rec ← ofHex rec
    let nx ← nx.toNat?
    let rp ← parseLetters rp
    let ls ← parseSelLetters ls
    let t ← parseSelLetter t
    pure (answerSel (runGac PyIpmi.Gen.Loops10.selCfg ⟨fl, budget, em != 0⟩ n
        ⟨⟨ls.map (·.1), t.1⟩, ⟨ls.map (·.2), t.2⟩, rp, r0, rec, nx⟩ rid) toHex)
  | _ => none

def handleC13 (line : String) : String :=
  match tokens line with
  | ["ping"] => "pong"
  | ["consts"] =>
    let k := K13
    " ".intercalate ([k.ccOk, k.chunkRetryDefault, k.chunkRenew, k.chunkRetry1, k.chunkRetry2,
      k.clearRetryDefault, k.clearRenew, k.ctrlInitiate, k.ctrlStatus, k.statusInProgress,
      k.statusCompleted, k.sendRetryDefault, k.sendBusy].map toString)
  | ["chunk", b, r, ls, t] =>
    match b.toNat?, r.toNat?, parseLetters ls, parseLetter t with
    | some b, some r, some ls, some t => answer (runChunk K13 b r ⟨ls, t⟩)
    | _, _, _, _ => "bad-op"
  | ["clear", b, r, ls, t] =>
    match b.toNat?, (if r == "-" then some none else r.toNat?.map some), parseLetters ls, parseLetter t with
    | some b, some rv, some ls, some t => answer (runClear K13 b rv ⟨ls, t⟩)
    | _, _, _, _ => "bad-op"
  | ["chunkr", b, r, rp, ls, t] =>
    match b.toNat?, r.toNat?, parseLetters rp, parseLetters ls, parseLetter t with
    | some b, some r, some rp, some ls, some t =>
      let p := runChunkR K13 b r ⟨ls, t⟩ rp
      s!"{p.2.tag} {showTrace p.1.env.trace}"
    | _, _, _, _, _ => "bad-op"
  | ["clearr", b, r, rp, ls, t] =>
    match b.toNat?, (if r == "-" then some none else r.toNat?.map some), parseLetters rp, parseLetters ls, parseLetter t with
    | some b, some rv, some rp, some ls, some t =>
      let p := runClearR K13 b rv ⟨ls, t⟩ rp
      s!"{p.2.tag} {showTrace p.1.env.trace}"
    | _, _, _, _, _ => "bad-op"
  | ["chunkx", b, r, rp, ls, t] =>
    match b.toNat?, r.toNat?, parseLettersX rp, parseLettersX ls, parseLetterX t with
    | some b, some r, some rp, some ls, some t => answerNA (PyIpmi.Model.RetryNA.runChunkX K13 b r ⟨ls, t⟩ rp)
    | _, _, _, _, _ => "bad-op"
  | ["clearx", b, r, rp, ls, t] =>
    match b.toNat?, (if r == "-" then some none else r.toNat?.map some), parseLettersX rp, parseLettersX ls, parseLetterX t with
    | some b, some rv, some rp, some ls, some t => answerNA (PyIpmi.Model.RetryNA.runClearX K13 b rv ⟨ls, t⟩ rp)
    | _, _, _, _, _ => "bad-op"
  | ["sendx", v, b, ls, t] =>
    match v.toNat?, b.toNat?, parseLettersX ls, parseLetterX t with
    | some v, some b, some ls, some t => answerNA (PyIpmi.Model.RetryNA.runSendX K13 ⟨v != 0⟩ b ⟨ls, t⟩)
    | _, _, _, _ => "bad-op"
  | ["clearloop", c, b, r, ls, t] =>
    match c.toNat?, b.toNat?, r.toNat?, parseLetters ls, parseLetter t with
    | some c, some b, some r, some ls, some t => answer (runClearLoop K13 c b r ⟨ls, t⟩)
    | _, _, _, _, _ => "bad-op"
  | ["send", v, b, ls, t] =>
    match v.toNat?, b.toNat?, parseLetters ls, parseLetter t with
    | some v, some b, some ls, some t => answer (runSend K13 ⟨v != 0⟩ b ⟨ls, t⟩)
    | _, _, _, _ => "bad-op"
  | toks => ((handleSdr13 toks).orElse fun _ => handleSel13 toks).getD "bad-op"

def main : IO Unit := do
  loop (← IO.getStdin) (← IO.getStdout) handleC13
