/-
  Line-protocol driver for C17 (sensor reading conversion).

    fwd  <fmt> <lin> <m> <b> <k1> <k2> <raw|n>   ->  none | DecodingError | ok <tag> <arg> <res>
    fwdall <fmt> <lin> <m> <b> <k1> <k2>          ->  the 256 `fwd` answers for raw = 0..255, joined by ` ; `
    spec <fmt> <lin> <m> <b> <k1> <k2> <raw|n>   ->  same shape, from Spec.Sensor (tag = table 43-1 code)
    fwdsel / specsel <fmt> <lin> <m> <b> <k1> <k2> <r1,r2,…>   -> answers for the listed raws
    invall <fs> <ss> <fmt> <lin> <m> <b> <k1> <k2> <rat>*      -> `inv` answers joined by ` ; `
    lin  <tag> <rat>                              ->  <res>        (exact tags 0, 7, 8, 9 only)
    inv  <formulaShipped:0|1> <signShipped:0|1> <fmt> <lin> <m> <b> <k1> <k2> <rat>
                                                  ->  ok <int> <rawQ> | py:<Error>
    tables                                        ->  linMask and the generated lin table
    hist <fs> <ss> <fmt> <lin> <m> <b> <k1> <k2> <step>*   -> the answers of the conversion steps, joined by ` ; `
                                                      the history model (Sensor.runHistory) of ONE record object;
                                                      <step> ::= S <fmt|lin|m|b|k1|k2> <int> | O | D <fmt> <lin> <m> <b> <k1> <k2>
                                                               | F <raw|n> (answer as `fwd`) | I <rat> (answer as `inv`)
    encfull <45 ints> <n,n,…|->                   ->  ok <hex> | bad-wf     the SPECIFICATION's encoder of a full sensor
                                                      record (Spec.Sdr.FullSensor.encode, table 43-1; ints in structure
                                                      order as for drv_c16 `spec full`, the id string as 8-bit ASCII
                                                      codes): the bytes the record histories of C17 decode

  <rat> ::= <int>/<nat>;  <res> ::= <rat> | py:<Error> | ? (transcendental: the harness applies
  Python's own function of that TAG to <arg>; tag 11 = `math.pow(x, 1.0/3)` answers py:ValueError for a
  negative <arg>, tag 12 = `math.copysign(math.pow(abs(x), 1.0/3), x)` answers ?).  The inverse ops take the
  first two Variant flags; the third (cube root) shows in the generated `lin` table, not in a flag.
-/
import PyIpmi.Base.Proto
import PyIpmi.Model.Sensor
import PyIpmi.Spec.Sensor
import PyIpmi.Spec.SdrFormat
import PyIpmi.Gen.SdrTables
open PyIpmi PyIpmi.Proto

def showRat (q : Rat) : String := s!"{q.num}/{q.den}"

def parseRat (s : String) : Option Rat :=
  match s.splitOn "/" with
  | [p] => (parseInt p).map (fun z => (z : Rat))
  | [p, q] =>
    match parseInt p, q.toNat? with
    | some z, some d => if d = 0 then none else some ((z : Rat) / (d : Rat))
    | _, _ => none
  | _ => none

/-- All transcendental functions answer `?`: encoded as a distinguished error. -/
def opaqueFns : Spec.Sensor.Fns :=
  let f : Rat → Outcome Rat := fun _ => .pyError "?"
  ⟨f, f, f, f, f, f, f, f⟩

def showRes : Outcome Rat → String
  | .ok q => showRat q
  | .pyError "?" => "?"
  | e => e.tag

def mkRec (fmt lin m b k1 k2 : String) : Option Sensor.Rec := do
  let fmt ← fmt.toNat?
  let lin ← lin.toNat?
  let m ← parseInt m
  let b ← parseInt b
  let k1 ← parseInt k1
  let k2 ← parseInt k2
  pure ⟨fmt, lin, m, b, k1, k2⟩

def fwdOne (r : Sensor.Rec) (raw : Option Nat) : String :=
  match raw with
  | none => "none"
  | some x =>
    match Sensor.linTag r.lin with
    | none => "DecodingError"
    | some t => s!"ok {t} {showRat (Sensor.arg r x)} {showRes (Sensor.applyTag opaqueFns t (Sensor.arg r x))}"

def specOne (r : Sensor.Rec) (raw : Option Nat) : String :=
  match raw with
  | none => "none"
  | some x =>
    match Spec.Sensor.linOfCode (r.lin % 128) with
    | none => "DecodingError"
    | some l =>
      let a := Spec.Sensor.affine ⟨r.m, r.b, r.k1, r.k2⟩ (Spec.Sensor.signed (Spec.Sensor.Fmt.ofCode r.fmt) x)
      s!"ok {l.code} {showRat a} {showRes (Spec.Sensor.applyLin opaqueFns l a)}"

def parseRaw (s : String) : Option (Option Nat) :=
  if s == "n" then some none else s.toNat?.map some

def natOf? (z : Int) : Option Nat := if 0 ≤ z then some z.toNat else none

/-- The specification's encoder of a full sensor record (table 43-1), fields in structure order. -/
def encFull (a : List Int) (ids : List Nat) : Option String :=
  match a with
  | rid :: ver :: oid :: ch :: lun :: num :: eid :: einst :: ini :: cap :: st :: et :: am :: dm ::
    rm :: fmt :: rate :: mod :: pct :: bu :: mu :: lin :: m :: tol :: b :: acc :: accx :: dir ::
    rexp :: bexp :: af :: nom :: nmax :: nmin :: smax :: smin :: unr :: ucr :: unc :: lnr :: lcr ::
    lnc :: ph :: nh :: oem :: [] => do
    let r : Spec.Sdr.FullSensor := {
      recordId := ← natOf? rid, version := ← natOf? ver, ownerId := ← natOf? oid, channel := ← natOf? ch,
      ownerLun := ← natOf? lun, number := ← natOf? num, entityId := ← natOf? eid,
      entityInstance := ← natOf? einst, initBits := ← natOf? ini, capabilities := ← natOf? cap,
      sensorType := ← natOf? st, eventType := ← natOf? et, assertionMask := ← natOf? am,
      deassertionMask := ← natOf? dm, readingMask := ← natOf? rm, analogFormat := ← natOf? fmt,
      rateUnit := ← natOf? rate, modifierUnit := ← natOf? mod, percentage := ← natOf? pct,
      baseUnit := ← natOf? bu, modUnit := ← natOf? mu, linearization := ← natOf? lin, m := m,
      tolerance := ← natOf? tol, b := b, accuracy := ← natOf? acc, accuracyExp := ← natOf? accx,
      sensorDirection := ← natOf? dir, rExp := rexp, bExp := bexp, analogFlags := ← natOf? af,
      nominal := ← natOf? nom, normalMax := ← natOf? nmax, normalMin := ← natOf? nmin,
      sensorMax := ← natOf? smax, sensorMin := ← natOf? smin, unr := ← natOf? unr, ucr := ← natOf? ucr,
      unc := ← natOf? unc, lnr := ← natOf? lnr, lcr := ← natOf? lcr, lnc := ← natOf? lnc,
      posHysteresis := ← natOf? ph, negHysteresis := ← natOf? nh, oem := ← natOf? oem,
      idString := .ascii8 ids }
    pure (if r.wf then s!"ok {toHex r.encode}" else "bad-wf")
  | _ => none

def parseField : String → Option Sensor.Field
  | "fmt" => some .fmt | "lin" => some .lin | "m" => some .m | "b" => some .b
  | "k1" => some .k1 | "k2" => some .k2 | _ => none

def parseSteps : List String → Option (List Sensor.Step)
  | [] => some []
  | "S" :: f :: v :: t => do
    let f ← parseField f
    let v ← parseInt v
    let rest ← parseSteps t
    pure (.set f v :: rest)
  | "O" :: t => do
    let rest ← parseSteps t
    pure (.other :: rest)
  | "D" :: fmt :: lin :: m :: b :: k1 :: k2 :: t => do
    let r ← mkRec fmt lin m b k1 k2
    let rest ← parseSteps t
    pure (.redecode r :: rest)
  | "F" :: raw :: t => do
    let x ← parseRaw raw
    let rest ← parseSteps t
    pure (.forward x :: rest)
  | "I" :: q :: t => do
    let y ← parseRat q
    let rest ← parseSteps t
    pure (.inverse y :: rest)
  | _ => none

/-- The outputs of `Sensor.runHistory`, rendered like the answers of `fwd` / `inv`: the result comes from the
history model, the tag / argument / pre-rounding value shown with it from the attributes of that moment. -/
def showHist (v : Sensor.Variant) : Sensor.Rec → List Sensor.Step → List Sensor.Out → List String
  | c, .set f x :: t, outs => showHist v (c.set f x) t outs
  | c, .other :: t, outs => showHist v c t outs
  | _, .redecode c' :: t, outs => showHist v c' t outs
  | c, .forward raw :: t, .value o :: outs =>
    (match raw, o with
     | some x, some oc =>
       (match Sensor.linTag c.lin with
        | none => oc.tag
        | some tg => s!"ok {tg} {showRat (Sensor.arg c x)} {showRes oc}")
     | _, _ => "none") :: showHist v c t outs
  | c, .inverse y :: t, .raw o :: outs =>
    (match o with
     | .ok z => s!"ok {z} {showRat (Sensor.rawQ v c y)}"
     | e => e.tag) :: showHist v c t outs
  | _, _, _ => []

def handleC17 (line : String) : String :=
  match tokens line with
  | ["ping"] => "pong"
  | "hist" :: fs :: ss :: fmt :: lin :: m :: b :: k1 :: k2 :: steps =>
    match mkRec fmt lin m b k1 k2, parseSteps steps with
    | some r, some st =>
      let v : Sensor.Variant := ⟨fs == "1", ss == "1", false⟩
      " ; ".intercalate (showHist v r st (Sensor.runHistory opaqueFns v r st))
    | _, _ => "bad-op"
  | "encfull" :: rest =>
    match rest.reverse with
    | ids :: revInts =>
      match revInts.reverse.mapM parseInt, (if ids == "-" then some [] else parseNatList ids) with
      | some a, some l => (encFull a l).getD "bad-op"
      | _, _ => "bad-op"
    | [] => "bad-op"
  | ["tables"] => s!"{Gen.SdrTables.linMask} " ++
      ",".intercalate (Gen.SdrTables.lin.map fun p => s!"{p.1}:{p.2}")
  | ["fwd", fmt, lin, m, b, k1, k2, raw] =>
    match mkRec fmt lin m b k1 k2, parseRaw raw with
    | some r, some x => fwdOne r x
    | _, _ => "bad-op"
  | ["fwdall", fmt, lin, m, b, k1, k2] =>
    match mkRec fmt lin m b k1 k2 with
    | some r => " ; ".intercalate ((List.range 256).map fun x => fwdOne r (some x))
    | none => "bad-op"
  | ["spec", fmt, lin, m, b, k1, k2, raw] =>
    match mkRec fmt lin m b k1 k2, parseRaw raw with
    | some r, some x => specOne r x
    | _, _ => "bad-op"
  | ["specall", fmt, lin, m, b, k1, k2] =>
    match mkRec fmt lin m b k1 k2 with
    | some r => " ; ".intercalate ((List.range 256).map fun x => specOne r (some x))
    | none => "bad-op"
  | ["fwdsel", fmt, lin, m, b, k1, k2, raws] =>
    match mkRec fmt lin m b k1 k2, parseNatList raws with
    | some r, some xs => " ; ".intercalate (xs.map fun x => fwdOne r (some x))
    | _, _ => "bad-op"
  | ["specsel", fmt, lin, m, b, k1, k2, raws] =>
    match mkRec fmt lin m b k1 k2, parseNatList raws with
    | some r, some xs => " ; ".intercalate (xs.map fun x => specOne r (some x))
    | _, _ => "bad-op"
  | "invall" :: fs :: ss :: fmt :: lin :: m :: b :: k1 :: k2 :: qs =>
    match mkRec fmt lin m b k1 k2, qs.mapM parseRat with
    | some r, some xs =>
      let v : Sensor.Variant := ⟨fs == "1", ss == "1", false⟩
      " ; ".intercalate (xs.map fun x =>
        match Sensor.valueToRaw v r x with
        | .ok z => s!"ok {z} {showRat (Sensor.rawQ v r x)}"
        | e => e.tag)
    | _, _ => "bad-op"
  | ["lin", tag, q] =>
    match tag.toNat?, parseRat q with
    | some t, some x => showRes (Sensor.applyTag opaqueFns t x)
    | _, _ => "bad-op"
  | ["inv", fs, ss, fmt, lin, m, b, k1, k2, q] =>
    match mkRec fmt lin m b k1 k2, parseRat q with
    | some r, some x =>
      let v : Sensor.Variant := ⟨fs == "1", ss == "1", false⟩
      match Sensor.valueToRaw v r x with
      | .ok z => s!"ok {z} {showRat (Sensor.rawQ v r x)}"
      | e => e.tag
    | _, _ => "bad-op"
  | _ => "bad-op"

def main : IO Unit := do
  loop (← IO.getStdin) (← IO.getStdout) handleC17
