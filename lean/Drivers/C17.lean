/- Line-protocol driver for C17 (stub until the property's models exist). -/
import PyIpmi.Base.Proto
open PyIpmi.Proto

def handleC17 (line : String) : String :=
  match tokens line with
  | ["ping"] => "pong"
  | _ => "bad-op"

def main : IO Unit := do
  loop (← IO.getStdin) (← IO.getStdout) handleC17
