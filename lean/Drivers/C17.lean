/-
  Line-protocol driver for C17 (sensor reading conversion).

    fwd  <fmt> <lin> <m> <b> <k1> <k2> <raw|n>   ->  none | DecodingError | ok <tag> <arg> <res>
    fwdall <fmt> <lin> <m> <b> <k1> <k2>          ->  the 256 `fwd` answers for raw = 0..255, joined by ` ; `
    spec <fmt> <lin> <m> <b> <k1> <k2> <raw|n>   ->  same shape, from Spec.Sensor (tag = table 43-1 code)
    fwdsel / specsel <fmt> <lin> <m> <b> <k1> <k2> <r1,r2,…>   -> answers for the listed raws
    invall <fs> <ss> <fmt> <lin> <m> <b> <k1> <k2> <rat>*      -> `inv` answers joined by ` ; `
    lin  <tag> <rat>                              ->  <res>        (exact tags 0, 7, 8, 9 only)
    inv  <formulaShipped:0|1> <signShipped:0|1> <fmt> <lin> <m> <b> <k1> <k2> <rat>
                                                  ->  ok <int> <rawQ> | py:<Error>
    tables                                        ->  linMask and the generated lin table

  <rat> ::= <int>/<nat>;  <res> ::= <rat> | py:<Error> | ? (transcendental: the harness applies
  Python's own function of that TAG to <arg>; tag 11 = `math.pow(x, 1.0/3)` answers py:ValueError for a
  negative <arg>, tag 12 = `math.copysign(math.pow(abs(x), 1.0/3), x)` answers ?).  The inverse ops take the
  first two Variant flags; the third (cube root) shows in the generated `lin` table, not in a flag.
-/
import PyIpmi.Base.Proto
import PyIpmi.Model.Sensor
import PyIpmi.Spec.Sensor
import PyIpmi.Gen.SdrTables
open PyIpmi PyIpmi.Proto

def showRat (q : Rat) : String := s!"{q.num}/{q.den}"

def parseRat (s : String) : Option Rat :=
  match s.splitOn "/" with
  | [p] => (parseInt p).map (fun z => (z : Rat))
  | [p, q] =>
    match parseInt p, q.toNat? with
    | some z, some d => if d = 0 then none else some ((z : Rat) / (d : Rat))
    | _, _ => none
  | _ => none

/-- All transcendental functions answer `?`: encoded as a distinguished error. -/
def opaqueFns : Spec.Sensor.Fns :=
  let f : Rat → Outcome Rat := fun _ => .pyError "?"
  ⟨f, f, f, f, f, f, f, f⟩

def showRes : Outcome Rat → String
  | .ok q => showRat q
  | .pyError "?" => "?"
  | e => e.tag

def mkRec (fmt lin m b k1 k2 : String) : Option Sensor.Rec := do
  let fmt ← fmt.toNat?
  let lin ← lin.toNat?
  let m ← parseInt m
  let b ← parseInt b
  let k1 ← parseInt k1
  let k2 ← parseInt k2
  pure ⟨fmt, lin, m, b, k1, k2⟩

def fwdOne (r : Sensor.Rec) (raw : Option Nat) : String :=
  match raw with
  | none => "none"
  | some x =>
    match Sensor.linTag r.lin with
    | none => "DecodingError"
    | some t => s!"ok {t} {showRat (Sensor.arg r x)} {showRes (Sensor.applyTag opaqueFns t (Sensor.arg r x))}"

def specOne (r : Sensor.Rec) (raw : Option Nat) : String :=
  match raw with
  | none => "none"
  | some x =>
    match Spec.Sensor.linOfCode (r.lin % 128) with
    | none => "DecodingError"
    | some l =>
      let a := Spec.Sensor.affine ⟨r.m, r.b, r.k1, r.k2⟩ (Spec.Sensor.signed (Spec.Sensor.Fmt.ofCode r.fmt) x)
      s!"ok {l.code} {showRat a} {showRes (Spec.Sensor.applyLin opaqueFns l a)}"

def parseRaw (s : String) : Option (Option Nat) :=
  if s == "n" then some none else s.toNat?.map some

def handleC17 (line : String) : String :=
  match tokens line with
  | ["ping"] => "pong"
  | ["tables"] => s!"{Gen.SdrTables.linMask} " ++
      ",".intercalate (Gen.SdrTables.lin.map fun p => s!"{p.1}:{p.2}")
  | ["fwd", fmt, lin, m, b, k1, k2, raw] =>
    match mkRec fmt lin m b k1 k2, parseRaw raw with
    | some r, some x => fwdOne r x
    | _, _ => "bad-op"
  | ["fwdall", fmt, lin, m, b, k1, k2] =>
    match mkRec fmt lin m b k1 k2 with
    | some r => " ; ".intercalate ((List.range 256).map fun x => fwdOne r (some x))
    | none => "bad-op"
  | ["spec", fmt, lin, m, b, k1, k2, raw] =>
    match mkRec fmt lin m b k1 k2, parseRaw raw with
    | some r, some x => specOne r x
    | _, _ => "bad-op"
  | ["specall", fmt, lin, m, b, k1, k2] =>
    match mkRec fmt lin m b k1 k2 with
    | some r => " ; ".intercalate ((List.range 256).map fun x => specOne r (some x))
    | none => "bad-op"
  | ["fwdsel", fmt, lin, m, b, k1, k2, raws] =>
    match mkRec fmt lin m b k1 k2, parseNatList raws with
    | some r, some xs => " ; ".intercalate (xs.map fun x => fwdOne r (some x))
    | _, _ => "bad-op"
  | ["specsel", fmt, lin, m, b, k1, k2, raws] =>
    match mkRec fmt lin m b k1 k2, parseNatList raws with
    | some r, some xs => " ; ".intercalate (xs.map fun x => specOne r (some x))
    | _, _ => "bad-op"
  | "invall" :: fs :: ss :: fmt :: lin :: m :: b :: k1 :: k2 :: qs =>
    match mkRec fmt lin m b k1 k2, qs.mapM parseRat with
    | some r, some xs =>
      let v : Sensor.Variant := ⟨fs == "1", ss == "1", false⟩
      " ; ".intercalate (xs.map fun x =>
        match Sensor.valueToRaw v r x with
        | .ok z => s!"ok {z} {showRat (Sensor.rawQ v r x)}"
        | e => e.tag)
    | _, _ => "bad-op"
  | ["lin", tag, q] =>
    match tag.toNat?, parseRat q with
    | some t, some x => showRes (Sensor.applyTag opaqueFns t x)
    | _, _ => "bad-op"
  | ["inv", fs, ss, fmt, lin, m, b, k1, k2, q] =>
    match mkRec fmt lin m b k1 k2, parseRat q with
    | some r, some x =>
      let v : Sensor.Variant := ⟨fs == "1", ss == "1", false⟩
      match Sensor.valueToRaw v r x with
      | .ok z => s!"ok {z} {showRat (Sensor.rawQ v r x)}"
      | e => e.tag
    | _, _ => "bad-op"
  | _ => "bad-op"

def main : IO Unit := do
  loop (← IO.getStdin) (← IO.getStdout) handleC17
