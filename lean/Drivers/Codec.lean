/-
  Line-protocol driver for the message codec model (C01, C02).

    enc <classIdx> <val>*          ->  ok <hex> | <error tag>
    dec <classIdx> <hex>           ->  ok <stopped:0|1> <val>* | <error tag>
    info <classIdx>                ->  <name> <netfn> <cmd> <nfields>
    count                          ->  number of classes

  val ::= i<nat> | a<hex> | b<n,n,…> | n
-/
import PyIpmi.Base.Proto
import PyIpmi.Model.Codec
import PyIpmi.Gen.Registry
open PyIpmi PyIpmi.Codec PyIpmi.Proto

def showVal : Val → String
  | .int v => s!"i{v}"
  | .arr l => "a" ++ toHex l
  | .bits vs => "b" ++ natList vs
  | .none => "n"

def parseVal (s : String) : Option Val :=
  if s == "n" then some .none
  else if s.startsWith "i" then (s.drop 1).toNat?.map .int
  else if s.startsWith "a" then (ofHex (s.drop 1).toString).map .arr
  else if s.startsWith "b" then (parseNatList (s.drop 1).toString).map .bits
  else none

def classAt (s : String) : Option MsgSpec := do
  let i ← s.toNat?
  PyIpmi.Gen.Registry.all[i]?

def handle (line : String) : String :=
  match tokens line with
  | ["count"] => toString PyIpmi.Gen.Registry.all.length
  | ["info", c] =>
    match classAt c with
    | some m => s!"{m.name} {m.netfn} {m.cmd} {m.layout.length}"
    | none => "bad-op"
  | "enc" :: c :: vals =>
    match classAt c, vals.mapM parseVal with
    | some m, some vs =>
      match encode m.layout vs with
      | .ok bs => "ok " ++ toHex bs
      | e => e.tag
    | _, _ => "bad-op"
  | ["dec", c, h] =>
    match classAt c, ofHex h with
    | some m, some bs =>
      match decAux [] m.layout bs with
      | .ok st =>
        if !st.stopped && st.rest.length > 0 then "DecodingError"
        else s!"ok {if st.stopped then 1 else 0} " ++ " ".intercalate (st.vals.map showVal)
      | e => e.tag
    | _, _ => "bad-op"
  | _ => "bad-op"

def main : IO Unit := do
  loop (← IO.getStdin) (← IO.getStdout) handle
