import PyIpmi.Props.C11
#print axioms PyIpmi.Props.C11.source_shape
#print axioms PyIpmi.Props.C11.constants_ok
#print axioms PyIpmi.Props.C11.call_sites
#print axioms PyIpmi.Props.C11.record_exact_or_error
#print axioms PyIpmi.Props.C11.completes_within_budget
#print axioms PyIpmi.Props.C11.budget_in_numbers
#print axioms PyIpmi.Props.C11.renews_same_store
#print axioms PyIpmi.Props.C11.list_renews_same_store
#print axioms PyIpmi.Props.C11.requests_same_store
#print axioms PyIpmi.Props.C11.list_exact_or_error
#print axioms PyIpmi.Props.C11.fuel_suffices
#print axioms PyIpmi.Props.C11.list_exact_any_fuel
#print axioms PyIpmi.Props.C11.list_complete
#print axioms PyIpmi.Props.C11.demo_wf
#print axioms PyIpmi.Props.C11.asShipped_duplicates_after_refusal
#print axioms PyIpmi.Props.C11.asShipped_renews_wrong_store
