import PyIpmi.Props.C06
#print axioms PyIpmi.Props.C06.handshake_order
#print axioms PyIpmi.Props.C06.handshake_order_no_retry
#print axioms PyIpmi.Props.C06.handshake_conforming
#print axioms PyIpmi.Props.C06.handshake_bmc
#print axioms PyIpmi.Props.C06.auth_strength_order
#print axioms PyIpmi.Props.C06.auth_choice
#print axioms PyIpmi.Props.C06.auth_choice_cases
#print axioms PyIpmi.Props.C06.auth_choice_all_subsets
#print axioms PyIpmi.Props.C06.auth_choice_asShipped_counterexample
#print axioms PyIpmi.Props.C06.seq_step
#print axioms PyIpmi.Props.C06.lifecycle_within_budget
#print axioms PyIpmi.Props.C06.monitor_sees_all
#print axioms PyIpmi.Props.C06.bmc_never_objects
#print axioms PyIpmi.Props.C06.session_datagrams
#print axioms PyIpmi.Props.C06.close_names_sid
#print axioms PyIpmi.Props.C06.close_again_sends_nothing
#print axioms PyIpmi.Props.C06.retransmissions_take_next_seq
