import PyIpmi.Props.C06
#print axioms PyIpmi.Props.C06.placeholder
