import PyIpmi.Props.C10
#print axioms PyIpmi.Props.C10.constants_ok
#print axioms PyIpmi.Props.C10.read_exact
#print axioms PyIpmi.Props.C10.read_full_exact
#print axioms PyIpmi.Props.C10.requests_name_fru
#print axioms PyIpmi.Props.C10.write_exact
#print axioms PyIpmi.Props.C10.write_count_mismatch_raises
#print axioms PyIpmi.Props.C10.write_short_ack_raises
#print axioms PyIpmi.Props.C10.write_resumed_exact
#print axioms PyIpmi.Props.C10.faultless_plan_is_reference_device
#print axioms PyIpmi.Props.C10.multirecord_as_shipped_misaddresses
#print axioms PyIpmi.Props.C10.multirecord_as_shipped_wrong_data
