import PyIpmi.Props.C01
#print axioms PyIpmi.Props.C01.roundtrip
#print axioms PyIpmi.Props.C01.registry_wf
#print axioms PyIpmi.Props.C01.registry_roundtrip
#print axioms PyIpmi.Props.C01.encode_declaration_order_aux
#print axioms PyIpmi.Props.C01.encode_declaration_order
#print axioms PyIpmi.Props.C01.uint_little_endian
#print axioms PyIpmi.Props.C01.bitfield_lsb_first
#print axioms PyIpmi.Props.C01.bitfield_bytes_little_endian
#print axioms PyIpmi.Props.C01.bitfield_members_independent
#print axioms PyIpmi.Props.C01.registry_paired
#print axioms PyIpmi.Props.C01.cmdKey_injective
#print axioms PyIpmi.Props.C01.counterpart_key
#print axioms PyIpmi.Props.C01.pairedFrom_above
#print axioms PyIpmi.Props.C01.no_counterpart_above
#print axioms PyIpmi.Props.C01.paired_count
#print axioms PyIpmi.Props.C01.registry_exactly_one_counterpart
