import PyIpmi.Props.C14
#print axioms PyIpmi.Props.C14.source_shape
#print axioms PyIpmi.Props.C14.inv_all_schedules
#print axioms PyIpmi.Props.C14.monitor_accepts_all_schedules
#print axioms PyIpmi.Props.C14.exchanges_not_interleaved
#print axioms PyIpmi.Props.C14.session_seq_increasing
#print axioms PyIpmi.Props.C14.own_reply
#print axioms PyIpmi.Props.C14.mutual_exclusion
#print axioms PyIpmi.Props.C14.racy_seq_is_harmless
#print axioms PyIpmi.Props.C14.no_deadlock
#print axioms PyIpmi.Props.C14.steps_bounded
#print axioms PyIpmi.Props.C14.maximal_runs_complete
#print axioms PyIpmi.Props.C14.accepted_trace_ok
