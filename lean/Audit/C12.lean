import PyIpmi.Props.C12
#print axioms PyIpmi.Props.C12.constants_ok
#print axioms PyIpmi.Props.C12.get_entry_exact
#print axioms PyIpmi.Props.C12.entries_exact
#print axioms PyIpmi.Props.C12.empty_log_nothing
#print axioms PyIpmi.Props.C12.get_and_clear_atomic
#print axioms PyIpmi.Props.C12.get_and_clear_same_reservation
