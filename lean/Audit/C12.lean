import PyIpmi.Props.C12
#print axioms PyIpmi.Props.C12.constants_ok
#print axioms PyIpmi.Props.C12.source_variant
#print axioms PyIpmi.Props.C12.floor_ok
#print axioms PyIpmi.Props.C12.get_entry_exact
#print axioms PyIpmi.Props.C12.entries_exact
#print axioms PyIpmi.Props.C12.truncating_device_read_exactly
#print axioms PyIpmi.Props.C12.entries_exact_after_history
#print axioms PyIpmi.Props.C12.get_entry_exact_after_history
#print axioms PyIpmi.Props.C12.get_and_clear_after_history
#print axioms PyIpmi.Props.C12.empty_log_nothing
#print axioms PyIpmi.Props.C12.get_and_clear_atomic
#print axioms PyIpmi.Props.C12.get_and_clear_repeats_both_steps
#print axioms PyIpmi.Props.C12.get_and_clear_same_reservation
#print axioms PyIpmi.Props.C12.get_and_clear_unbounded_as_shipped
#print axioms PyIpmi.Props.C12.entry_view_system
#print axioms PyIpmi.Props.C12.entry_view_oem
#print axioms PyIpmi.Props.C12.entry_decoding_strict
