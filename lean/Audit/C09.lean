import PyIpmi.Props.C09
#print axioms PyIpmi.Props.C09.send_message_layer
#print axioms PyIpmi.Props.C09.peel_all
#print axioms PyIpmi.Props.C09.reroute_last
#print axioms PyIpmi.Props.C09.reroute_peel_all
#print axioms PyIpmi.Props.C09.direct_when_single_hop
#print axioms PyIpmi.Props.C09.bridged_is_bytes
#print axioms PyIpmi.Props.C09.unwrap_wrap
#print axioms PyIpmi.Props.C09.unwrap_error
#print axioms PyIpmi.Props.C09.bare_ack_empty
#print axioms PyIpmi.Props.C09.bare_ack_not_returned
#print axioms PyIpmi.Props.C09.bare_ack_waits
