import PyIpmi.Props.C18
#print axioms PyIpmi.Props.C18.parse_encode
#print axioms PyIpmi.Props.C18.parse_encode_as_shipped
#print axioms PyIpmi.Props.C18.shipped_oem_counterexample
#print axioms PyIpmi.Props.C18.shipped_oem_witness
#print axioms PyIpmi.Props.C18.shipped_description_witness
#print axioms PyIpmi.Props.C18.intended_description_witness
#print axioms PyIpmi.Props.C18.chunks_spec
#print axioms PyIpmi.Props.C18.upload_exact
#print axioms PyIpmi.Props.C18.upload_aborts
#print axioms PyIpmi.Props.C18.upload_configured
#print axioms PyIpmi.Props.C18.upload_exact_configured
