import PyIpmi.Props.C04
#print axioms PyIpmi.Props.C04.gen_loop_shape
#print axioms PyIpmi.Props.C04.attribution_sound_rmcp
#print axioms PyIpmi.Props.C04.queue_provenance_rmcp
#print axioms PyIpmi.Props.C04.attribution_sound_session
#print axioms PyIpmi.Props.C04.attribution_sound_i2c
#print axioms PyIpmi.Props.C04.seq_distinct_rmcp
#print axioms PyIpmi.Props.C04.seq_distinct_i2c
#print axioms PyIpmi.Props.C04.finds_match_after_noise_asShipped_counterexample
#print axioms PyIpmi.Props.C04.no_poisoning_asShipped_counterexample
#print axioms PyIpmi.Props.C04.finds_match_after_timeouts
#print axioms PyIpmi.Props.C04.finds_match_after_noise
#print axioms PyIpmi.Props.C04.queue_stays_empty
#print axioms PyIpmi.Props.C04.no_poisoning
#print axioms PyIpmi.Props.C04.finds_match_after_noise_i2c
