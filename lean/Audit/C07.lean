import PyIpmi.Props.C07
#print axioms PyIpmi.Props.C07.spec_bootdev_code_inverse
