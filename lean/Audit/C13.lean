import PyIpmi.Props.C13
#print axioms PyIpmi.Props.C13.source_shape
#print axioms PyIpmi.Props.C13.chunk_bounded
#print axioms PyIpmi.Props.C13.clear_bounded
#print axioms PyIpmi.Props.C13.send_bounded
#print axioms PyIpmi.Props.C13.fresh_reservation_chunk
#print axioms PyIpmi.Props.C13.fresh_reservation_clear
#print axioms PyIpmi.Props.C13.clearAct_done_iff
#print axioms PyIpmi.Props.C13.erase_before_poll
#print axioms PyIpmi.Props.C13.success_iff_last_status_complete
#print axioms PyIpmi.Props.C13.unexpected_code_propagates_clear
#print axioms PyIpmi.Props.C13.unexpected_code_propagates_chunk
#print axioms PyIpmi.Props.C13.unexpected_code_propagates_send
#print axioms PyIpmi.Props.C13.exhaustion_is_retryError_chunk
#print axioms PyIpmi.Props.C13.exhaustion_is_retryError_clear
#print axioms PyIpmi.Props.C13.exhaustion_is_retryError_send
#print axioms PyIpmi.Props.C13.send_repeats_only_after_busy
#print axioms PyIpmi.Props.C13.send_as_shipped_retries_other_codes
