import PyIpmi.Props.C02
#print axioms PyIpmi.Props.C02.decode_total
#print axioms PyIpmi.Props.C02.decode_strict
#print axioms PyIpmi.Props.C02.decode_error_kind
#print axioms PyIpmi.Props.C02.cc_stops
#print axioms PyIpmi.Props.C02.registry_ok
#print axioms PyIpmi.Props.C02.registry_decode
