import PyIpmi.Props.C03
#print axioms PyIpmi.Props.C03.checksum_zero_sum
#print axioms PyIpmi.Props.C03.encode_total
#print axioms PyIpmi.Props.C03.hdr_sum_zero
#print axioms PyIpmi.Props.C03.payload_sum_zero
#print axioms PyIpmi.Props.C03.frame_carries
#print axioms PyIpmi.Props.C03.frame_is_bytes
#print axioms PyIpmi.Props.C03.header_prefix
#print axioms PyIpmi.Props.C03.default_flags
#print axioms PyIpmi.Props.C03.rx_filter_iff
#print axioms PyIpmi.Props.C03.rx_filter_total
#print axioms PyIpmi.Props.C03.single_byte_corruption_rejected
#print axioms PyIpmi.Props.C03.intact_reply_accepted
#print axioms PyIpmi.Props.C03.wrapper_verification_in_source
#print axioms PyIpmi.Props.C03.accepted_frame_is_intact
#print axioms PyIpmi.Props.C03.transport_single_byte_corruption_rejected
#print axioms PyIpmi.Props.C03.transport_corruption_asShipped_counterexample
