import PyIpmi.Props.C16
#print axioms PyIpmi.Props.C16.placeholder
