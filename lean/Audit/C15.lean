import PyIpmi.Props.C15
#print axioms PyIpmi.Props.C15.parse_encode
#print axioms PyIpmi.Props.C15.parse_encode_asShipped_restricted
#print axioms PyIpmi.Props.C15.asShipped_bcd_counterexample
#print axioms PyIpmi.Props.C15.asShipped_sixbit_counterexample
#print axioms PyIpmi.Props.C15.accept_implies_checksums
#print axioms PyIpmi.Props.C15.alteration_rejected
#print axioms PyIpmi.Props.C15.alteration_rejected_length_byte_partial
#print axioms PyIpmi.Props.C15.length_byte_limit
#print axioms PyIpmi.Props.C15.encodeFru_is_bytes
#print axioms PyIpmi.Props.C15.ascii6_text_exact
#print axioms PyIpmi.Props.C15.tables_match_storage_definition
