import PyIpmi.Props.C17
#print axioms PyIpmi.Props.C17.signed_spec
#print axioms PyIpmi.Props.C17.lin_table_gen
#print axioms PyIpmi.Props.C17.lin_table
#print axioms PyIpmi.Props.C17.lin_functions
#print axioms PyIpmi.Props.C17.forward_argument
#print axioms PyIpmi.Props.C17.forward_formula
#print axioms PyIpmi.Props.C17.absent_reading
#print axioms PyIpmi.Props.C17.inverse_roundtrip
#print axioms PyIpmi.Props.C17.negative_zero_not_recovered
#print axioms PyIpmi.Props.C17.inverse_asShipped_counterexample
#print axioms PyIpmi.Props.C17.inverse_formula_counterexample
#print axioms PyIpmi.Props.C17.inverse_sign_counterexample
