#!/bin/sh
# tools/seedtest.sh <dir-with-patch.diff+demo.py> <ID>... : confirm a seeded change against the
# CURRENT /repo HEAD in a scratch worktree (tests green with it; demo passes without it and fails
# with it), run the given checks against it, replay each reported violation on the mutant and
# on the clean tree.  Prints a summary; removes the worktree.
V=$(cd "$(dirname "$0")/.." && pwd)
d=$(readlink -f "$1"); shift
name=$(basename "$d")
wt=/tmp/seed_$name
git -C /repo worktree remove --force $wt 2>/dev/null
git -C /repo worktree add -q --detach $wt HEAD || exit 2
mkdir -p $wt/_mutant && cp "$d/demo.py" $wt/_mutant/
(cd $wt && /venv/bin/python -B _mutant/demo.py >/tmp/seed_$name.clean.log 2>&1); echo "clean_demo_exit=$?"
if ! git -C $wt apply "$d/patch.diff" 2>/dev/null; then
  if ! git -C $wt apply --3way "$d/patch.diff" 2>/tmp/seed_$name.apply.log; then
     echo "PATCH DOES NOT APPLY"; cat /tmp/seed_$name.apply.log | tail -5; git -C /repo worktree remove --force $wt; rm -f /tmp/seed_$name.*; exit 2; fi
  echo "applied with 3way"
fi
echo "tests: $(cd $wt && /venv/bin/python -B -m pytest -q -p no:cacheprovider 2>&1 | tail -1)"
(cd $wt && /venv/bin/python -B _mutant/demo.py >/tmp/seed_$name.mut.log 2>&1); echo "mutant_demo_exit=$?"; tail -2 /tmp/seed_$name.mut.log
for id in "$@"; do
  out=$(cd $V && VERIF_REPO=$wt ./check $id 2>&1); rc=$?
  echo "check $id rc=$rc :: $(echo "$out" | tail -1)"
  echo "$out" | grep VIOLATION | head -6
  for r in $(echo "$out" | grep -o 'replay=[^ ]*' | sed 's/replay=//' | head -2); do
     m=$(cd $V && VERIF_REPO=$wt ./check $id --replay $r 2>&1 | tail -1)
     c=$(cd $V && ./check $id --replay $r 2>&1 | tail -1)
     echo "  replay $r on mutant: $m"; echo "  replay $r on clean : $c"
     python3 -c "
import json,sys; v=json.load(open('$V/$r')); print('   ', v.get('kind'), (v.get('violation') or {}).get('signature'), '|', str((v.get('violation') or {}).get('what') or v.get('broken'))[:300])"
  done
done
git -C /repo worktree remove --force $wt; rm -f /tmp/seed_$name.*
# regenerate lean/PyIpmi/Gen (and the evidence) from /repo again: a scratch-tree run rewrites Gen
for id in "$@"; do (cd $V && ./check $id >/dev/null 2>&1); done

