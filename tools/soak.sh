#!/bin/sh
# tools/soak.sh [first-seed [count]] [ID...] : quick tier of the given (default: all claimed) checks for
# `count` consecutive seeds on the current /repo; prints only runs that are not silent.  Used before a
# check is claimed and after every generator change: a rare false alarm shows up here, not in the field.
cd "$(dirname "$0")/.." || exit 2
first=${1:-100}; count=${2:-20}; [ $# -ge 2 ] && shift 2 || shift $#
ids="$*"; [ -z "$ids" ] && ids=$(python3 -c "import json;print(' '.join(c['property_id'] for c in json.load(open('MANIFEST.json'))['checks']))")
bad=0
for id in $ids; do
  s=$first; n=0
  while [ $n -lt $count ]; do
    out=$(VERIF_SEED=$s ./check $id --tier quick 2>&1); rc=$?
    if [ $rc -ne 0 ] || echo "$out" | grep -q "VIOLATION\|KNOWN-FINDING\|Traceback"; then
      bad=$((bad+1)); echo "NOT SILENT: $id seed=$s rc=$rc"; echo "$out" | grep -v conda | tail -4
      mkdir -p .work/soak && cp replays/$id-$s-*.json .work/soak/ 2>/dev/null
    fi
    s=$((s+1)); n=$((n+1))
  done
  echo "soaked $id seeds $first..$((first+count-1))"
done
echo "soak done: $bad non-silent runs"
