#!/bin/sh
# tools/accept.sh <ID>... : acceptance run of a check on the current /repo:
# quick tier for VERIF_SEED 0,1,2 (must be silent, exit 0), evidence must validate.
cd /verif
for id in "$@"; do
  for s in 0 1 2; do
    start=$(date +%s)
    out=$(VERIF_SEED=$s ./check $id 2>&1); rc=$?
    end=$(date +%s)
    echo "$id seed=$s rc=$rc $((end-start))s :: $(echo "$out" | grep -v conda | tail -1)"
    echo "$out" | grep -E "VIOLATION|KNOWN-FINDING|Traceback|Error" | head -5
  done
  /opt/veriftools/pyvenv/bin/python - "$id" <<'PY'
import json,sys,jsonschema
i=sys.argv[1]
try:
    jsonschema.validate(json.load(open('/verif/evidence/%s.json'%i)),json.load(open('/root/.vp/EVIDENCE.schema.json')))
    e=json.load(open('/verif/evidence/%s.json'%i))
    c=e['coverage']
    print(i,'evidence valid: level',e['level'],'obligations',c.get('obligations'),'discharged',c.get('discharged'),'evals',c.get('evaluations'),'distinct',c.get('distinct_nontrivial'))
except Exception as ex:
    print(i,'EVIDENCE INVALID',str(ex)[:300])
PY
done
