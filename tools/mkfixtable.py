#!/usr/bin/env python3
"""tools/mkfixtable.py : rewrite the table of DESIGN.md §9.2 from known_findings.json (`fixed`).
One row per commit: properties, first `what` text, all signatures."""
import json, re, os
ROOT = os.path.dirname(os.path.dirname(os.path.abspath(__file__)))
k = json.load(open(os.path.join(ROOT, 'known_findings.json')))
rows, order = {}, []
for e in k['fixed']:
    c = e['commit']
    if c not in rows:
        rows[c] = {'props': [], 'what': None, 'sigs': []}
        order.append(c)
    r = rows[c]
    if e['property'] not in r['props']:
        r['props'].append(e['property'])
    w = re.sub(r'^fixed: property=\S+ \S+ ', '', e['what'])
    if r['what'] is None or len(w) > len(r['what']):
        r['what'] = w
    if e['signature'] not in r['sigs']:
        r['sigs'].append(e['signature'])
lines = ['| commit | property | defect | reproduced by (signature of the violation the check reported on the unfixed tree) |',
         '|--------|----------|--------|---------------|']
for c in order:
    r = rows[c]
    lines.append('| %s | %s | %s | %s |' % (c, '/'.join(r['props']), r['what'].replace('|', '\\|'),
                                            '; '.join('`%s`' % s for s in r['sigs'])))
p = os.path.join(ROOT, 'DESIGN.md')
s = open(p).read()
m = re.search(r'\| commit \| property \| defect \|.*?\n\n', s, re.S)
s = s[:m.start()] + '\n'.join(lines) + '\n\n' + s[m.end():]
open(p, 'w').write(s)
print('fix table: %d commits, %d signatures' % (len(order), len(k['fixed'])))
