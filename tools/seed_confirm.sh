#!/bin/sh
# tools/seed_confirm.sh <worktree-with-_mutant> <seed-name> <ID>... : confirm a blind mutant
# (tests pass with it; demo fails with it and passes without), run the checks against it, and
# keep it under /verif/seeded/<seed-name>/.
wt=$1; name=$2; shift 2
[ -f $wt/_mutant/patch.diff ] || { echo "no patch"; exit 2; }
mkdir -p /verif/seeded/$name && cp $wt/_mutant/patch.diff $wt/_mutant/demo.py $wt/_mutant/meta.json /verif/seeded/$name/ 2>/dev/null
cl=/tmp/confirm_$name
git -C /repo worktree remove --force $cl 2>/dev/null
git -C /repo worktree add -q --detach $cl HEAD || exit 2
mkdir -p $cl/_mutant && cp /verif/seeded/$name/demo.py $cl/_mutant/
echo "== clean demo:"; (cd $cl && /venv/bin/python -B _mutant/demo.py 2>&1 | tail -2; echo "exit=$?")
git -C $cl apply /verif/seeded/$name/patch.diff || { echo "PATCH DOES NOT APPLY"; git -C /repo worktree remove --force $cl; exit 2; }
echo "== mutant tests:"; (cd $cl && /venv/bin/python -B -m pytest -q -p no:cacheprovider 2>&1 | tail -1)
echo "== mutant demo:"; (cd $cl && /venv/bin/python -B _mutant/demo.py 2>&1 | tail -3; echo "exit=$?")
for id in "$@"; do
  echo "== check $id on mutant:"; (cd /verif && VERIF_REPO=$cl ./check $id 2>&1 | tail -4)
done
git -C /repo worktree remove --force $cl
