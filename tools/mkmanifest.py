#!/venv/bin/python
"""tools/mkmanifest.py : regenerate /verif/MANIFEST.json from the table below.

One row per property: (claimed?, category, text, note, technique).  A property that is not claimed
is listed under not_applicable with its reason.  Run after changing a claim; the file it writes
is validated against /root/.vp/MANIFEST.schema.json when jsonschema is importable.
"""
import json
import os
import sys

VERIF = os.path.dirname(os.path.dirname(os.path.abspath(__file__)))

BASE = ('Lean 4.33 kernel; axioms of every property theorem are audited on every run to be within '
        '{propext, Classical.choice, Quot.sound} (no sorry / native_decide / bv_decide / own axioms); ')

ROWS = {
 'C01': dict(
  text='Lean theorems: round trip for every well-formed layout and every in-range assignment (induction on the '
       'layout), wire format (declaration order, little-endian, LSB-first bit-fields, neighbours undisturbed), and '
       'kernel-decided facts over the registry regenerated from the live tree (all 282 classes constructible, '
       'well-formed, each request with exactly one response counterpart); completion codes 1..255 are encoded as byte 0 and decoding stops at them (nonok_cc_encoded_and_stops, registry_cc_placement, registry_nonok_cc; the real encode_message is called with all 255 codes); what registry[...] and the create_* functions RETURN is the id pairing, FooReq <-> FooRsp (registry_lookup over Gen/RegistryLookup.lean); 21 theorems. Tie: per-class differential run of the '
       'real encode/decode against the compiled Lean codec.',
  note='translators harness/translate/registry.py (regenerates Gen/Registry.lean from the imported classes) and registry_lookup.py (what the lookups return, as indices); '
       'hand-written model Model/Codec.lean validated by correspondence; round trip stated for completion_code = 0',
  tech='Lean 4 proof (induction over layouts, decide +kernel over generated registry) + translator + differential correspondence'),
 'C02': dict(
  text='Lean theorems for all byte strings: decode ok => re-encode = input; the only failure is DecodingError; a '
       'non-OK completion code stops decoding; lifted to every class of the regenerated registry. Tie: differential '
       'run on truncations, extensions, short strings, random strings and all non-OK codes.',
  note='same trusted base as C01; "never hangs" is the structural termination of the model plus observation of the '
       'real decoder on generated inputs',
  tech='Lean 4 proof (typing invariant + induction over layouts) + translator + differential correspondence'),
 'C03': dict(
  text='Lean theorems for all headers/payloads: both checksums make the byte sums zero, the frame carries exactly the '
       'given fields (parsed back by an independent wire specification), rx_filter accepts iff checksums verify and '
       'netfn+1/cmd/LUN/(seq)/enabled address checks match, hence every single-byte corruption of an accepted reply '
       'is rejected; the same clause through the LAN transport, which may unwrap before the filter sees a frame: whatever the transport accepts is intact as received, so any single corrupted byte of a plain or wrapped reply (any wrapper byte, any depth) is dropped (transport_single_byte_corruption_rejected; counter-example theorem for the source before fix e1dd889); the RESPONSE frames (from_req_header + IpmbHeaderRsp.encode + encode_ipmb_msg, the BMC emulation\'s reply path) are the figure\'s response to the request and pass the request\'s filter (response_frame_is_figure, response_frame_passes_filter; as shipped response_frame_asShipped_rejected); 24 theorems. The checksum arithmetic, header encode/decode expressions and the list of filter checks are '
       'regenerated from the AST of pyipmi/interfaces/ipmb.py on every run.',
  note='translator harness/translate/ipmb.py; control flow around the generated expressions (Model/Ipmb.lean) is '
       'hand-written and tied by a differential run (all 32 flag settings, every single-byte corruption of sampled replies; every single-byte corruption of plain and 1..3-fold wrapped replies through the real Rmcp)',
  tech='Lean 4 proof (byte-sum algebra, iff characterisation of the filter) + AST translator + differential correspondence'),
 'C04': dict(
  text='40 Lean theorems over all event lists, budgets, quirks and histories - the socket\'s receive queue included - for '
       'RMCP, ipmb-dev and Aardvark (with is_ipmc_accessible): attribution through intact Send Message responses '
       'only; a CompletionCodeError only from the outstanding Send Message\'s own response; sequence numbers distinct '
       '(probes too); a match behind <= max_retries unrelated frames or time-outs is found for every request incl. '
       'command 34h; after any history and any socket leftovers a request whose reply arrives is answered for every '
       'max_retries incl. 0. Counter-example theorems for the source before the fixes (command-only recognition, no '
       'drain, probe without increment, re-queue). Eight functions are re-read statement by statement into a tiny loop '
       'AST on every run and must equal the annotated functions the step models were written from (source_shape_*, '
       'source_facts); a moved, added, removed or changed statement stops these theorems from building. The loop '
       'models are tied by exhaustive orderings (length <= 4..6) over a frame alphabet on the real transports with '
       'fake socket/fd/clock, and by two-thread schedules with one late reply. Session operations are operations of the interface too: over any history of requests, establish_session (any prefix of its requests) and close_session the sequence counter is the start value plus the number of requests mod 64 (ops_counter_never_reset; the functions that store it are read from the source: source_state_writers), any two requests less than 64 apart differ (ops_seq_distinct) and no late reply to an earlier request is returned (ops_late_reply_never_returned).',
  note='translator harness/translate/loops04.py (syntax-directed AST printer + constant readers); hand-written step '
       'functions in Model/RmcpLoop.lean and IpmbDevLoop.lean whose source shape is generated and pinned '
       '(Model/LoopAst.lean, Loops.Shape.*) and whose behaviour is tied by the correspondence run; receive events are '
       'given (no real timing); sessionless RMCP only (C05/C06 own packing)',
  tech='Lean 4 proof (invariant by induction over event lists) + translator of constants and of the loops\' statement-level shape + exhaustive-ordering correspondence on the real loops + two-thread schedules with one late reply under the deterministic scheduler'),
 'C05': dict(
  text='Lean theorems for all payloads, session ids, sequence numbers and passwords: the sent datagram is RMCP v6 / '
       'class IPMI / auth type / LE sequence and id / 16-byte code iff type != none / length byte / payload; the code '
       'is the padded password or MD5(pw,id,payload,seq,pw) over the values in that same datagram; unpack returns '
       'exactly the payload and rejects wrong version, class and length (unless disabled); ASF: the ping equals the figure, and every well-formed presence pong (Spec.Lan.Pong, from ASF 2.0 3.2.4.3 / IPMI v2.0 table 13-6; all entity / interaction bytes) is accepted and unwrapped to its fields (wellformed_pong_accepted; as shipped pong_interactions_asShipped_counterexample; the variant of check_data is probed on the code); 27 theorems. '
       'Struct formats, constants and the auth dispatch are regenerated from rmcp.py on every run.',
  note='translator harness/translate/rmcp.py; digest function is a parameter of the theorems, hashlib.md5 is trusted and '
       'cross-checked against a Lean RFC 1321 implementation; CPython struct/array semantics modelled; session 3: the pong the library BUILDS (AsfPong.pack, emulator answers) is parsed by the specification (pong_pack_wellformed, pong_pack_parsed_and_accepted, pong_pack_asShipped_counterexample, pong_pack_asShipped_never_pong, pong_pack_variants; Model/PongPack.lean, variant probed)',
  tech='Lean 4 proof (byte-level refinement to the packet figure) + translator + differential correspondence through a fake socket'),
 'C06': dict(
  text='41 Lean theorems about the model of establish_session / the retry loop / requests / close_session against a '
       'reference IPMI v1.5 BMC session state machine: handshake order against ANY peer (ping, Get Channel Auth '
       'Capabilities, Get Session Challenge, Activate Session, Set Session Privilege Level; each at most '
       'max_retries+1 times); for every conforming BMC configuration, every number of requests n and every loss '
       'pattern within max_retries the BMC never objects, the first three datagrams are outside any session, '
       'activation uses the temporary id and echoes the challenge, user and privilege as configured, all in-session '
       'datagrams (retransmissions included) carry the granted id, the chosen type and consecutive sequence numbers '
       'from inside the acceptance window with 0 skipped on 32-bit wrap, Close Session names the granted id; the '
       'authentication choice is the strongest of offered-and-implemented for every capability byte, over the '
       'preference tuple and the implemented set regenerated from messaging.py / rmcp.py on every run; the '
       'statement-level shape of establish_session / close_session / the request builders is re-read from the AST '
       '(Gen/SessionShape.lean, theorem handshake_shape); the clean-up close after a fault (silence over the whole retry budget or an error completion code) at ANY handshake step returns, sends Close Session for the granted id iff one was granted and leaves no session open on the BMC (close_after_failed_open, close_after_failed_open_bmc); when the BMC offers no authentication type nothing follows the capabilities exchange and the outcome is NotSupportedError (auth_none_offered_no_request); as-shipped counter-example theorems for both; histories on REUSED Rmcp / Session objects: after any history of failed / successful attempts and closes a handshake starts from a cleared Session (establish_forgets_history, lifecycle_after_any_history, close_after_failed_open_any_history; the reference BMC demands the null sequence number on Activate Session), and at most one keep-alive thread exists, none during a handshake and none after close (keepalive_at_most_one, keepalive_none_during_handshake, keepalive_none_after_close); counter-examples for the source before fixes 7494b19 / 5f3973d; for every user name / password up to 16 bytes incl. the empty ones, Get Session Challenge, Activate Session (header and body) and every datagram after it carry the strongest offered implemented type (chosen_type_on_every_datagram; anonymous_downgrade_counterexample).',
  note='translators harness/translate/rmcp.py, session.py; hand-written model Model/Session.lean tied per datagram byte for byte (the '
       'real Rmcp talks through a fake socket to the compiled Lean reference BMC, the same script is replayed to the '
       'model); reference BMC Spec/BmcSession.lean is a reading of IPMI v1.5 6.11-6.12; digest function is a parameter; '
       'random.randrange pinned; keep-alive off (C14), stale frames C04; per-step fault stopping points are checked '
       'by the run, proved only in the any-peer form; session 3: credential form (None / str / bytes, user and password independently) x 32 capability subsets with Model/SessionCred.lean (credential_form_intended, credential_form_fields, credential_form_asShipped_counterexample)',
  tech='Lean 4 proof (induction on losses and on n, invariants Live/Chain over a relay abstraction; decide over generated preference tuple) + translator + closed-loop correspondence against the Lean reference BMC'),
 'C09': dict(
  text='Lean theorems for routing paths of every length: the bridged request is a nest of Send Message layers (one per '
       'hop, right bridge address, channel, tracking bit, valid checksums) whose innermost frame is the original '
       'request; unwrap(wrap reply) = reply for every depth and every inner command but App/34h (34h in other NetFns included); a damaged wrapper is never unwrapped; the transport unwraps only the intact response to its own outstanding Send Message; un-bridged requests never unwrap; late or foreign acks are never raised (counter-examples for the source before fix e1dd889); a failing layer yields its completion code; a bare '
       'acknowledgement is never returned and makes the transport read on; after ANY history of re-routings of one Target the '
       'request traverses exactly the hops of the path configured last (reroute_peel_all); on every native transport: RMCP emits the nest (any depth), ipmb-dev and Aardvark (which do not bridge) emit the plain request for a local target or refuse with NotSupportedError before anything is written (routed_request_rmcp_is_nest, routed_request_i2c_nest_or_nothing, stated over C04\'s step models via Lemmas/LoopsBridge; i2c_routing_ignored_asShipped_counterexample); 28 theorems.',
  note='Model/Bridge.lean hand-written on top of the generated C03 framing model; Send Message ids and channel-byte bit '
       'positions regenerated from the live SendMessageReq class; tie by differential run (depth 1..8); retransmissions: Model.Bridge.retryBridged with theorems retransmission_reply_returned / _error_reported / _budget (any number of lost or acknowledged-only attempts within the budget, then the reply) and a stream on the real Rmcp(max_retries >= 1) whose fake socket is the specification chain of bridges answering what each attempt carried',
  tech='Lean 4 proof (induction on the routing list) + translator + differential correspondence'),
 'C10': dict(
  text='Lean theorems for every device content, area size, offset, length and per-request limit >= 2: read_fru_data '
       'returns exactly the stored slice, the full read the whole area, every request names the caller\'s FRU id, '
       'write stores the bytes contiguously and raises on a short acknowledgement; a write of which the first k bytes were stored before it failed, resumed from offset+k, leaves what one complete write stores (write_resumed_exact); all write theorems for every write_length 1..255 (write_*_any_chunk; the harness assigns ipmi.write_length: 8 named sizes + random, all in thorough) and an acknowledgement larger than the chunk raises; write clause at full strength: for any peer and any chunk size the first deviating acknowledgement k ends the write with an exception after exactly k+1 requests whatever later acknowledgements would be (write_raises_at_first_count_mismatch, write_stops_at_first_bad_answer, write_all_acked_returns); every optional-argument form of read_fru_data (read_exact_any_range); an area the common header declares absent yields None after the header read alone with every request inside bytes 0..7 (absent_area_is_none, absent_multirecord_is_none), a present info / multirecord area yields exactly the stored area (present_area_exact, present_multirecord_exact); counter-examples for the source before fix 319cfb8; contents up to a full 64 KiB (65536 bytes; explicit ranges and writes may end at 10000h: read_exact, write_exact, read_reaches_last_byte_of_64k; the reported size is 16 bit: Spec.Fru.infoSize, read_full_of_64k_device; end_clamped_to_ffff_loses_last_byte); 36 theorems. The loops of fru.py are translated '
       'from the AST on every run (Gen/Loops10.lean) and run against a Lean reference device.',
  note='translator harness/translate/loops10.py; reference device Spec/FruDevice.lean (rejects or serves short); area '
       'parsers are C15; differential run compares outcome, bytes, full request trace and final device state; history stream: every single case again as 2nd operation of one Ipmi object, directed and random sequences of 2..6 operations incl. refused reads and writes that fault at chunk k (Spec.Fru.respondF) and are resumed, each step judged against the contents at its start and compared with the stateless model',
  tech='Lean 4 proof (loop invariant: bytes so far = storage prefix) + AST translator + differential correspondence against a reference device'),
 'C11': dict(
  text='Lean theorems over every well-formed reference SDR device (two stores, records of 5..260 bytes, any ids, any '
       'per-read limit signalled by CAh, reservations cancelled before any request indices, transient C3h/CEh at any '
       'indices): a read that returns, returns exactly the stored record and its successor id, otherwise '
       'RetryError/CompletionCodeError; it does return when limit >= 5, the loop iterations fit the budget '
       '(closed form; limit >= 16 serves every record) and at most 2 cancellations are to come; over ANY transport a '
       'Get answered C5h is immediately followed by the Reserve of the same store and no request addresses the other '
       'store; listings yield all records once in repository order, with the fuel lemma. Constants, loop shape and the '
       'call-site table (which reserve function each store uses) are regenerated from the source on every run.',
  note='translator harness/translate/loops11.py (shared with C13); Model/SdrXfer.lean hand-written, tied by a differential '
       'run on outcome, bytes and full request trace; reference device Spec/SdrDevice.lean with a Python twin re-validated '
       'against it on every trace; completion proved for a device without transient codes and <= 2 cancellations (tight); history stream on one Ipmi object over both stores (A, then B with a cancellation or transient before every request index, then back to A; random sequences): each step judged by the same oracles and equal to a fresh object\'s run, which is what the model computes; Variant.staleRes probed, theorems hold for both values',
  tech='Lean 4 proof (loop invariants by induction on the retry budgets, chain induction for listings, trace invariant over an arbitrary transport) + AST translator + differential correspondence against a reference device'),
 'C12': dict(
  text='Lean theorems for every log, partial-read limit and script of concurrent changes: entries are returned exactly, '
       'once each, in order; an empty log gives nothing; get-and-clear returns the entry that was deleted, deletes '
       'under the reservation of the read and repeats both steps when the reservation is cancelled in between (get_and_clear_atomic for every budget without a fuel hypothesis; get_and_clear_repeats_both_steps: fewer changes than rounds and the record still present => success); the decoded SelEntry equals the view of IPMI tables 32-1..3 for system events (entry_view_system, entry_view_oem, entry_decoding_strict); a device that truncates instead of refusing is read exactly (truncating_device_read_exactly); behind ANY history of operations of any outcome on the same object a healthy device is read exactly (entries_exact_after_history, get_entry_exact_after_history, get_and_clear_after_history; the source keeps no state between calls: selStateless in source_variant); 17 theorems.',
  note='translator harness/translate/loops10.py (sel.py loops); reference device Spec/SelDevice.lean; tie by '
       'differential run (outcome, record bytes, request trace, final device state); every returned SelEntry judged attribute by attribute; one-object histories; variant (length floor, retry budget) read from the source and probed; OEM record attributes beyond data / id / type are not judged',
  tech='Lean 4 proof (refinement to the log as a list) + AST translator + differential correspondence against a reference device'),
 'C13': dict(
  text='Lean theorems for EVERY outcome sequence and budget: chunk fetching, repository clearing and send_message issue '
       'a bounded number of requests, use the most recent reservation, initiate before polling, report success iff '
       'the last status says complete, propagate unexpected codes, end in RetryError on exhaustion; send_message '
       'repeats only after node busy; also above the chunk helper: for every transport, every Get (Device) SDR of a record read or a listing carries the id returned by the most recent Reserve of that store (the caller\'s before the first; fresh_reservation_data / _listing / _every_get, counter-example stale_after_renewal_as_shipped); <= 161 exchanges per record; the two loops of pyipmi/sel.py: get_sel_entry <= 33 requests for any script and RetryError after 17 refusals, get_and_clear_sel_entry <= 35 requests per round within its budget (unbounded before fixes 8f8257b / 934f8f8: counter-example theorems sel_entry_unbounded_as_shipped, sel_get_and_clear_unbounded_as_shipped); a refused Reserve (first or renewal) is propagated and is the last call; source_variant equates the variants read from today\'s source with the intended ones; the SEL script alphabet is "completed with k bytes, 0 <= k <= requested": bounded against ANY peer (sel_entry_bounded_any_peer), an empty completed answer ends in RetryError (sel_entry_empty_answer_gives_up; before fix 3d41463 sel_entry_unbounded_on_empty_answers); 43 theorems. Constants, loop tests and call sites are re-read from helper.py/__init__.py on '
       'every run.',
  note='translator harness/translate/loops11.py; Model/Retry.lean hand-written, tied by depth-first exploration of the '
       'outcome tree (depth 5/8, budgets 1..6) on the real helpers with scripted callables; time.sleep recorded; Model/SdrXfer.lean on a scripted byte-level device, renewed-id variant probed; session 3: the outcome alphabet also has N = no answer (the callable raises IpmiTimeoutError): Model/RetryNoAnswer.lean, chunk_/clear_/send_bounded_no_answer, no_answer_propagates_chunk/_clear/_send for every script, reserve plan and budget; SDR/SEL operations with N are judged by the oracle only',
  tech='Lean 4 proof (induction on the budget / outcome stream) + translator + exhaustive outcome-tree correspondence'),
 'C14': dict(
  text='34 Lean theorems over ALL schedules, EVERY retry budget (max_retries) and EVERY loss pattern of the network, of an interleaving model of one Rmcp interface shared by any number of '
       'application threads, its own keep-alive loop (call_repeatedly: the interval elapses any number of times at '
       'any moment) and one thread that ends with close_session: each caller gets its own reply; exchanges are not '
       'interleaved on the socket; session sequence numbers are strictly increasing over the whole wire log including '
       'Close Session; nothing is transmitted after Close Session; mutual exclusion; no deadlock, including the '
       'stopper\'s join; every maximal run ends with all calls made, Close Session last, the session deactivated and '
       'the keep-alive thread terminated. The model has both variants of the stopper: as shipped (event.set only) a '
       'concrete schedule is PROVED to put the keep-alive\'s Get Device ID after Close Session with a repeated '
       'sequence number (defect found and fixed in /repo, cd1ae83); with the join the property is proved. Second variant (sequence number allocated inside the lock, fix b0e0b42): rq_seq_distinct_on_wire for every schedule, late_reply_cannot_match; racy_seq_asShipped_counterexample. Third variant (session wrapper packed per attempt vs. once before the retry loop): a thread whose reply is lost packs again and retransmits inside the same lock hold, so session sequence numbers stay strictly increasing, retransmissions and Close Session included, and each caller gets its own reply or - only after a time-out on its own datagram whose reply was lost - an error (own_reply_or_timeout_error); packOnce_retransmission_repeats_session_seq (wire N, N, N+1) / repacked_same_schedule_is_clean; rq_seq_distinct_on_wire / late_reply_cannot_match for max_retries = 0. A lock chosen per target instead of the one transaction lock breaks all three clauses (lock_per_target_counterexample; Shape.oneLock is part of source_shape); exchanges of bridged targets (tx followed by several rx) are judged by the multi-datagram monitor (exchangesOk_imp_multi). Today\'s source is equated with the safe variant by a theorem (source_is_safe_variant, today_all_schedules: no variant hypothesis left). Lock '
       'scope, packing place, sequence-number updates, the `activated` guard, the keep-alive loop, what the stopper '
       'does and the shape of close_session are re-read from the AST of rmcp.py / session.py on every run '
       '(Gen/Threads.lean, theorem source_shape). The model\'s atomic steps are validated by trace inclusion: real '
       'threads run the real call_repeatedly loop and close_session under a deterministic scheduler (scheduling '
       'points at lock, socket, shared-attribute accesses, wake-up of Event.wait, Event.set, Thread.join, source '
       'lines); every schedule with <= 2..3 preemptions plus seeded random ones; each real trace must be accepted by '
       'the Lean model and the wire log by the Lean monitor.',
  note='translator harness/translate/threads.py; harness/sim/sched.py (scheduler, Lock/Event/Thread stand-ins); '
       'granularity: source lines and shared-attribute accesses (bytecode-level switches inside a line and GIL '
       'release in C calls are not exhibited); Event.wait(interval) is a virtual timer whose wake-up is a scheduling '
       'decision; exactly one thread closes, after the other application threads have finished; thread START timing '
       'of call_repeatedly and establish_session (C06) are not explored; one late reply x every <= 2..3-preemption schedule at shared-access granularity is an always-on stream judged on the real code - partial with respect to the CPython runtime; session 3: monitor clause (W) wholeExchanges (the datagrams of one call - request and its retransmissions - are consecutive on the wire), judged on every schedule; lock hand-off sweep (fair FIFO / preempt after release); whole_exchange_owned_by_its_caller, release_in_retry_handler_counterexample; an all-schedules (W) theorem for the model is not proved (the model keeps no per-call datagram record; it proves mutual_exclusion with the retry loop inside the lock block)',
  tech='Lean 4 proof (three inductive invariants over all schedules of a step relation, termination measure, counter-example by decide for the shipped stopper) + AST translator of the lock/packing/loop/stopper/close shape + trace-inclusion validation on really scheduled threads including stop timing'),
 'C15': dict(
  text='Lean theorems: parse(encode img) = img for every abstract FRU image (all areas, four text encodings, custom '
       'fields, multi-records incl. PICMG), acceptance implies all zero-sum checksums, hence any single alteration of '
       'a covered byte is rejected - for an info-area length byte: acceptance implies a declared length >= 1 unit inside the data with a zero sum over exactly that span, which contains the byte (0 and beyond-data rejected; length_byte_limit shows no reader can do more), on the file and the device path; OEM C0h records of other manufacturers are undecoded records; today\'s source is equated with the intended variant over the five AST-read forms (source_is_intended_variant, parse_encode_today; tables_match_storage_definition demands the dispatch guards with = some); acceptance implies imageOk: checksums over the declared spans, every field and C1h marker inside its area, areas disjoint, on the file and the device path (accept_implies_wellformed); an altered info-area length byte is accepted only when shortened by whole unused units with a zero-sum span, never when lengthened (alteration_rejected_length_byte; on a device only into bytes of no area), the residual is exhibited in both directions by length_byte_limit (each altered image is exactly the encoding of another well-formed image); 36 theorems. Masks, shifts, BCD map, dispatch constants and length guards are regenerated from '
       'fru.py/fields.py on every run; images are encoded by an independent Lean encoder written from the storage definition.',
  note='translator harness/translate/fru.py; Model/FruParse.lean hand-written and tied by differential run (bytes, '
       'array, list, file, device path); datetime arithmetic modelled; five probed variant flags with counter-example theorems; device path modelled (Model/FruDevice) and tied; translator also recognises the dispatch, length-guard and area-length shapes; device histories on one long-lived Ipmi object: image A read, contents replaced by image B behind the back of the library / by a complete / a faulted-and-resumed / a tail-first write_fru_data, other FRU ids in between, read again => B\'s view',
  tech='Lean 4 proof (parser/encoder inversion by induction on fields and records; checksum algebra) + translator + differential correspondence'),
 'C16': dict(
  text='52 Lean theorems: for each of the eight record kinds parse(encode r) = r for every abstract record; 10-bit M, B, '
       'accuracy and 4-bit exponents are reassembled and sign-extended for all byte values; the type byte alone '
       'selects the record class; BCD plus id strings in all sixteen codes of IPMI 43.15 (the SDR table is regenerated from TypeLengthString.SDR_BCD_PLUS, theorem bcd_plus_sdr_table); channel number [7:4] of the FRU device locator and of the MC confirmation record with device revision [3:0]; the record key is reported sub-field by sub-field: sensor key byte 7 gives channel_number [7:4] and owner_lun [1:0] on full / compact / event-only records, FRU locator key byte 8 gives logical_physical (the flag), access_lun and private_bus_id (fru_access_byte_all, sensor_key_all, sensor_key_channel_distinguished; as-shipped counter-examples). Every mask / shift / or / sign-extension expression of the seven _from_data methods, '
       '_common_record_key, _device_id_string, _convert_complement (sdr.py) and of TypeLengthString._from_data / '
       '_unpack6bitascii (fields.py) is regenerated from the Python AST on every run (Gen/SdrExpr.lean) and proved '
       'equal to the expression the model uses at that place (gen_* theorems), together with the order and sizes of '
       'all pops, the flag masks and the bytes each expression reads.',
  note='translators harness/translate/sdr.py (dispatch table, BCD map) and harness/translate/sdrexpr.py (expression '
       'grammar, fail closed); the control skeleton of Model/SdrParse.lean (which popped byte feeds which expression, '
       'short-buffer DecodingError, exception kinds), pop_unsigned_int, _decode_capabilities and bcd_decode are '
       'hand-written and tied by the differential run against the real SdrCommon.from_data on list/tuple/bytes/array; '
       'parsed results are kept and re-read after later parses (no state shared between records); decoder selection of the SDR / FRU path and the sdr flag plumbing are read by sdrexpr.py; attributes the property does not enumerate (capabilities, global_initialization, OEM key) are compared with the model only',
  tech='Lean 4 proof (bit-field reassembly lemmas, per-kind inversion, rfl / kernel sweeps against AST-generated expressions) + AST expression translator + differential correspondence'),
 'C17': dict(
  text='Lean theorems over exact rationals: forward conversion is L[(M*x+B*10^K1)*10^K2] with x read per analog format, '
       'None maps to None, and for linear sensors with M != 0 the inverse recovers every raw byte except one\'s-complement '
       'negative zero (proved for all M, B, K1, K2); all twelve linearisations, the cube root assumed only to be a real cube root (defined everywhere, odd: Fns.RealCubeRoot; oracle math.cbrt; counter-example theorems cubert_negative_counterexample, shipped_cubert_rejects_negatives for math.pow(x, 1/3)). The sign conversions, the argument (M*x + B*10^K1)*10^K2, the inverse '
       'formula, the two negative encodings with the variable their "< 0" test reads, both guards and '
       '_convert_complement are regenerated from the AST of sdr.py on every run (Gen/SensorExpr.lean) and proved equal '
       'to the model\'s expressions (gen_*_eq). Tie: all 256 exponent pairs x formats x raw bytes against the real '
       'float code with a condition-aware error bound; thorough: the full product boundary M x boundary B x (K1,K2) x format, 184 320 records x 16 raws.',
  note='IEEE-754 rounding of the Python arithmetic is modelled, not verified (model is exact Rat; near-half cases counted '
       'as ambiguous); transcendental functions are parameters; linearisation table regenerated each run; expression '
       'translator harness/translate/sdrexpr.py (fail closed; int(round()) an opaque cut); control skeleton (guard '
       'order, M = 0, None) and round() hand-written in Model/Sensor.lean, tied by the differential run; session 3: histories on one mutable record object (construction path x re-assignment of factors x re-decoding x interleaved conversions) with the Lean history model Sensor.runHistory (history_forward_current, history_roundtrip_current, history_split, history_other_irrelevant)',
  tech='Lean 4 proof (field arithmetic over Rat, case analysis on formats, definitional equality with AST-generated expressions) + AST expression translator + differential correspondence'),
 'C18': dict(
  text='25 Lean theorems: parse(encode image) = image for every well-formed HPM.1 image (header, components, every action '
       'record with exactly its firmware bytes), and for every binary, block size and device behaviour the upload '
       'sends the bytes once, in order, in blocks <= block size numbered mod 256 from 0, polls status after '
       '"long duration in progress" and goes on only when the status reports 00h (a final failure code or 80h still pending at the time-out stops the upload with HpmError, no further block: upload_stops, upload_aborts_long_failure, upload_aborts_long_timeout), aborts with HpmError on any other code; OEM header data 0..255 bytes incl. the empty one. Offsets, lengths, block size, masks and '
       'codes are regenerated from hpm.py on every run (fail closed).',
  note='translator harness/translate/hpm.py; virtual clock; MD5 trailer is a parameter; three parser flags and one upload flag (as shipped / intended) probed on the real code, counter-example theorems for the as-shipped ones; reference device whose long duration commands end with a final code reported in Get Upgrade Status; time-outs of a block are outside the quantifier (observation); tie by differential run with an '
       'independent image encoder cross-checked against the Lean encoder; histories of 2..5 images written and parsed in one process (same path / same size / pinned mtime / other paths, through UpgradeImage, Hpm.open_upgrade_image and get_upgrade_version_from_file), each run in a pristine forked child (harness/sim/pristine.py), kept results re-read at the end; session 3: per-block outcome "no answer" (IpmiTimeoutError): oracle Spec.HpmDevice.uploadDelivered (an unanswered request is not delivered and is repeated identically, or the call raises), uploadBinaryR, shipped_upload_skips_silent_block, resend_upload_witness, upload_exact_resend; a general theorem for plans containing silences is not proved (witnesses + equivalence with the proved loop on fully answered plans)',
  tech='Lean 4 proof (parser inversion; upload-loop invariant: sent = prefix of binary) + translator + differential correspondence'),
 'C19': dict(
  text='Lean theorems against a Lean model of POSIX sh word splitting/quoting: for every user/password string without '
       'NUL the shell hands exactly that string to ipmitool as one argument; options are placed per interface type; the '
       'reply parser inverts ipmitool\'s hex printer for any length and wrapping; rsp=0xNN, timeout, connection and '
       'long-password lines map to their errors. String constants regenerated from the source each run.',
  note='translator harness/translate/ipmitool.py; Spec.Sh is validated against the real /bin/sh (dash) on every generated '
       'command line through an argv-printing stub; ipmitool output format taken from its sources; histories of 2..4 calls on ONE Ipmitool object with credentials / host / privilege / session changed in between, each call judged against the argument vector its CURRENT settings demand (pristine child per history); session 3: the ping oracle comes from the property text (effective -L / -C, absent -L = ADMINISTRATOR per ipmitool(1)): ping_effective_level_cipher, as_shipped_ping_drops_level_and_cipher, ping_source_is_intended',
  tech='Lean 4 proof (shell-quoting inertness by induction on the string; printer/parser inversion) + translator + correspondence through the real shell'),
 'C20': dict(
  text='63 Lean theorems over the command table regenerated from pyipmi/ipmitool.py: every entry resolves to an existing '
       'operation with an acceptable arity (kernel-decided over the whole generated table; table_is_intended: today\'s table IS the repaired one, so a regression of one entry stops the build), chassis power sub-commands '
       'map to distinct option codes, longest-prefix lookup is correct, getopt separates options as given, raw '
       'sends/prints exactly; every class of pyipmi.errors and a socket time-out, raised by open, a request or close, ends main() with a message and status 1 (error_classes_complete, all_errors_exit_nonzero, main_reports_every_failure); numeric arguments are accepted in decimal and hex at every converting position; the printing handlers raise no Python error on a link-less channel, every SDR type of IPMI ch. 43, sensors flagged unavailable and raw values outside the domain of a non-linear function and non-linear sensors of every linearization byte (70h-7Fh: no value for a tool that reads the record only; sensor_values_no_python_error over all 128 codes, lin model tied to the library on 256 bytes x 3 signs); as-shipped counter-example theorems for each; the LUN argument of all six get_sensor_reading calls of sdr list/show/showall is read from the source and pinned (sensor_reads_today), sdr show of a full record addresses (owner LUN, number) for every record (sdr_show_full_reads_owner_lun). Tie: main() run in-process for every entry against the direct API '
       'call on an identical BMC stub.',
  note='translator harness/translate/cli.py (also reads the except clauses and where close() sits, the classes of errors.py, every int(args[k][, 0]), the handler guards and caught classes, the SDR class table; the hypotheses exitsCover, closeInside, base10Args = [] and the handler guards are evaluated on today\'s source by the driver\'s probe on every run); getopt/int(s,0) modelled in Lean and tied to CPython by the run; stub BMC profiles full / minimal / plain / sdrtypes / nonlinear / unavailable / luns (sensors on owner LUN 0/1/3, same number on two LUNs) with an HPM.1 upgrade agent; a traceback is not counted as a message; "completes '
       'without a Python error" is checked per entry on the stub profiles (a Python error on a fault-free run is a violation), not proved; histories of 2..4 consecutive main() runs in one process with every option given in one run and absent in the next: each run must equal the same run alone in a new process; session 3: -b <channel> (channel_option_takes_effect, no_channel_no_bridge, explicit_routing_kept) judged on the real Rmcp frame and the ipmitool argv, aardvark on/off options judged on recorded adapter writes (aardvark_options_take_effect, 27 combinations); a time-out of an Upload Firmware Block answered by the identical block is by design (C18)',
  tech='Lean 4 proof (decide +kernel over generated table; lookup/getopt lemmas) + translator + differential correspondence (CLI vs API)'),
 'C07': dict(
  text='107 Lean theorems about per-operation models of 79 pyipmi.Ipmi operations (device id/GUID/watchdog, chassis and '
       'boot options, LAN, users, sensors/events, PICMG LED/fan/port/power/activation, HPM status, and the three DCMI reads: capabilities, power reading, sensor record ids - the last one exact on every conforming BMC as the first eight ids per entity, equal to the full list when no entity has more than eight, with a counter-example theorem for nine because the library does not page) played against a '
       'byte-level reference BMC: for ALL in-range arguments and ALL conforming BMC states every write leaves exactly '
       'the state the arguments denote and every read returns the BMC\'s current state for the addressed object '
       '(channel, user, sensor+LUN, FRU, LED, port); by induction over ANY history the k-th result is the getter on '
       'the state at that moment (history independence; state invariant preserved). Laws of the conversion tables '
       'regenerated from the tree: boot device both directions against IPMI table 28-14, privilege, IP source, VLAN '
       'round trip <= 4095, LED function coding; the reads include the parameter revision of the addressed LAN channel (revision-only mode), the HPM.1 rollback component mask + estimate, and no reading/state while the BMC flags them unavailable; the HPM.1 component description string byte for byte, Set Fan Level as its three request bytes on fan trays of both revisions, the OEM link types the library publishes, sensor states 0..14 with the reserved bit ignored; nine operations carry as-shipped/intended model variants chosen by probing the tree, with counter-example theorems for the as-shipped ones. Hidden state of the IMPLEMENTATION (class-level lists, shared default '
       'arguments, caches) is what the history correspondence over 1-3 connections and 1-2 BMC instances detects.',
  note='translators harness/translate/tables.py and registry.py regenerate the tables, wrapper constants and message '
       'layouts (as rewrite rules) each run; hand-written models Model/Api/*.lean (one exchange per operation) are tied '
       'on every call of 1-30-call histories by request bytes, return value/exception and BMC state digest; reference '
       'BMC Spec/Bmc.lean (permissive reading of IPMI 2.0 / PICMG 3.0 / HPM.1) is the oracle; executable hypothesis '
       'checks wfB/inRangeB are proved sound and evaluated on every exercised (state, call) pair; `open` and operations '
       'owned by other properties (SDR, SEL, FRU, HPM upgrade, raw) are exercised-only or not exercised here; DCMI states are generated with 0..8 sensors per entity (the unpaged walk is an observation outside the operation families the property enumerates)',
  tech='Lean 4 proof (symbolic evaluation of each exchange, induction over histories, decide +kernel over generated tables) + translators + closed-loop history correspondence against the Lean reference BMC'),
 'C08': dict(
  text='62 Lean theorems over interaction programs: every one of the 145 public operations of pyipmi.Ipmi is covered '
       '(kernel-decided table_covered over the table regenerated from the AST of every public method): 108 by the '
       'skeleton theorems (every resolution, one fault and ANY fault set), 9 leaves by handler-model theorems at full '
       'strength (any request position, any code 01h..FFh, any fault set: read_fru_data, the *_and_wait polls, '
       'upload_binary, get_component_properties, get_sel_entry, get_and_clear_sel_entry), 21 compositions by '
       'composition_fault_safe / composition_multi_safe (SEL/SDR listings and FRU area reads also instantiated), 3 '
       'primitives and 4 transport operations listed with their reason: a non-OK completion code yields '
       'CompletionCodeError with that code / RetryError / HpmError or - where the handler retries or adapts - the '
       'fault-free result; never another value, never default-initialised data; an HPM.1 operation answered 80h completes only if the polled Get Upgrade Status reports 00h - a final failure code or 80h still pending at the time-out is HpmError (hpm_long_outcome_never_mistaken, upload_binary_long_outcome_never_mistaken under any fault set; as-shipped counter-examples). Tie and residue: every public '
       'method x every request position x completion-code alphabet (thorough: all 255 codes), model-vs-code on '
       'outcome, bytes and request trace for the modelled handlers.',
  note='translator harness/translate/api.py (skeletons, shape classes; loops10/loops11 extractors for constants); Prog '
       'models hand-written and tied by the correspondence run; device hypotheses of the leaf theorems (consistent '
       'FRU/SEL/SDR storage, HPM action and status succeed fault-free) are assumed at every leaf a composition '
       'reaches; get_sel_entry admits at most 16 answers CAh per fault set; stateless scripted BMC with device variants (busy / failing long duration commands: the status script ends 00h, 80h for ever or 82h); virtual clock',
  tech='Lean 4 proof (fault-safety of interaction programs closed under bind, induction on budgets, decide +kernel over the generated table) + AST translator + exhaustive fault enumeration and model-vs-code trace comparison on the real code'),
}

NOT_YET = {
}

ORDER = ['C%02d' % i for i in range(1, 21)]


def main():
    checks = []
    for pid in ORDER:
        r = ROWS.get(pid)
        if not r or pid in NOT_YET:
            continue
        checks.append({
            'property_id': pid,
            'quick_cmd': './check %s --tier quick' % pid,
            'thorough_cmd': './check %s --tier thorough' % pid,
            'evidence_file': 'evidence/%s.json' % pid,
            'replay_cmd_template': './check %s --replay {path}' % pid,
            'engine': 'lean4-proof+correspondence',
            'level_claimed': {'category': r.get('cat', 'proof'), 'text': r['text'],
                              'design_ref': 'DESIGN.md §5 %s' % pid},
            'level_note': BASE + r['note'],
            'technique': r['tech'],
        })
    doc = {
        'version': 1,
        'setup_cmd': './setup',
        'hooks': {
            'guard': 'KONTRON_PYTHON_IPMI_VERIF',
            'enable': 'no source hooks are needed: every effect is substituted from the harness (module/instance '
                      'attributes); checks import pyipmi straight from /repo\'s working tree with '
                      'KONTRON_PYTHON_IPMI_VERIF=1 set',
            'baseline_off_cmd': 'cd /repo && /venv/bin/python -m pytest -ra -q -p no:cacheprovider --timeout=900 '
                                '--continue-on-collection-errors',
            'source_commits': [],
            'add_only': True,
        },
        'engines': [{
            'name': 'lean4-proof+correspondence',
            'path': 'lean/ harness/ check',
            'serves_properties': [c['property_id'] for c in checks],
            'kind_free_text': 'Lean 4 theorems over executable models; models tied to /repo by translators (Gen/*.lean '
                              'regenerated every run) and by a differential correspondence run against compiled Lean '
                              'drivers; failing-input search against the real code when a tie breaks',
        }],
        'checks': checks,
        'notes': 'All 20 properties are in scope of the design. Genuine defects found by the checks were repaired in '
                 '/repo by "fix:" commits listed in known_findings.json (fixed).',
        'not_applicable': [{'property_id': p, 'reason': NOT_YET[p]} for p in ORDER if p in NOT_YET],
    }
    path = os.path.join(VERIF, 'MANIFEST.json')
    with open(path, 'w') as f:
        json.dump(doc, f, indent=1)
        f.write('\n')
    try:
        import jsonschema
        jsonschema.validate(doc, json.load(open('/root/.vp/MANIFEST.schema.json')))
        print('MANIFEST.json valid;', len(checks), 'checks;', len(doc['not_applicable']), 'not applicable')
    except ImportError:
        print('MANIFEST.json written (jsonschema not importable here)')


if __name__ == '__main__':
    sys.exit(main())
