#!/bin/sh
# tools/fix.sh <fixes/Cxx-n.diff> "<commit message starting with fix:>"
# apply a candidate fix to /repo, run the pinned suite, commit when green.
set -e
d=$(readlink -f "$1"); msg="$2"
case "$msg" in fix:*) ;; *) echo "message must start with fix:"; exit 2;; esac
git -C /repo apply --check "$d"
git -C /repo apply "$d"
if (cd /repo && /venv/bin/python -m pytest -q -p no:cacheprovider --timeout=900 2>&1 | tail -2 | tee /dev/stderr | grep -q "406 passed"); then
  git -C /repo commit -qam "$msg" && git -C /repo log --oneline | head -1
else
  echo "TESTS NOT GREEN - reverting"; git -C /repo checkout -- .; exit 1
fi
