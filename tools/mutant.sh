#!/bin/sh
# tools/mutant.sh <name> <patch-file|-> <ID>... : apply a patch to a scratch worktree of /repo,
# run the repo tests there, then the given checks with VERIF_REPO pointing at it; clean up.
# With "-" the patch is read from stdin.
name=$1; patch=$2; shift 2
wt=/tmp/mut_$name
git -C /repo worktree remove --force $wt 2>/dev/null
git -C /repo worktree add -q --detach $wt HEAD || exit 2
if [ "$patch" = "-" ]; then git -C $wt apply - || { echo "PATCH FAILED"; git -C /repo worktree remove --force $wt; exit 2; }
else git -C $wt apply "$patch" || { echo "PATCH FAILED"; git -C /repo worktree remove --force $wt; exit 2; }; fi
(cd $wt && /venv/bin/python -B -m pytest -q -p no:cacheprovider -x 2>&1 | tail -1)
for id in "$@"; do
  (cd /verif && VERIF_REPO=$wt ./check $id 2>&1 | tail -4)
done
git -C /repo worktree remove --force $wt
# regenerate lean/PyIpmi/Gen (and the evidence) from /repo again: a scratch-tree run rewrites Gen
for id in "$@"; do (cd /verif && ./check $id >/dev/null 2>&1); done

