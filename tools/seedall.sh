#!/bin/sh
# tools/seedall.sh [name...] : tools/seedtest.sh for every kept seeded change (default: all of seeded/*) against
# the checks its meta.json names in caught_by; one summary line per change.  Long (about 2 min per change).
cd "$(dirname "$0")/.." || exit 2
names="$*"; [ -z "$names" ] && names=$(ls seeded | grep -v '^_')
bad=0
for n in $names; do
  d=seeded/$n; [ -f $d/patch.diff ] || continue
  ids=$(python3 -c "import json;print(' '.join(json.load(open('$d/meta.json')).get('caught_by') or ['$(echo $n | cut -c1-3)']))")
  out=$(tools/seedtest.sh $d $ids 2>&1)
  cd_=$(echo "$out" | grep -o 'clean_demo_exit=[0-9]*'); md=$(echo "$out" | grep -o 'mutant_demo_exit=[0-9]*')
  t=$(echo "$out" | grep -o '^tests: .*' | grep -o '[0-9]* passed\|[0-9]* failed' | head -1)
  rcs=$(echo "$out" | grep -o 'check C[0-9]* rc=[0-9]*' | tr '\n' ' ')
  rm_=$(echo "$out" | grep -c 'on mutant: .*VIOLATED'); rc_=$(echo "$out" | grep -c 'on clean : .*holds')
  nr=$(echo "$out" | grep -c 'on mutant:')
  nff=$(echo "$out" | grep -c 'no-failing-input-found')
  ok=OK
  echo "$out" | grep -q 'PATCH DOES NOT APPLY' && ok=PATCH-FAILS
  [ "$cd_" = "clean_demo_exit=0" ] || ok=BAD; [ "$md" = "mutant_demo_exit=1" ] || ok=BAD
  echo "$rcs" | grep -q 'rc=1' || ok=BAD
  [ "$nr" -gt 0 ] && [ "$rm_" = "$nr" ] && [ "$rc_" = "$nr" ] || ok=BAD
  [ $ok = OK ] || bad=$((bad+1))
  echo "$ok $n ids=[$ids] $cd_ $md tests=[$t] $rcs replays=$nr violated_on_mutant=$rm_ holds_on_clean=$rc_ weak=$nff"
  [ $ok = OK ] || echo "$out" | tail -n 12 | sed 's/^/    | /'
done
echo "seedall done: $bad not OK"
