#!/usr/bin/env python3
"""Rewrite the table of DESIGN.md §9.3 from /verif/seeded/*/meta.json."""
import json, os, re
V = os.path.dirname(os.path.dirname(os.path.abspath(__file__)))
rows = []
for d in sorted(os.listdir(V + '/seeded')):
    p = V + '/seeded/' + d + '/meta.json'
    if d.startswith('_') or not os.path.exists(p):
        continue
    m = json.load(open(p))
    esc = lambda t: str(t).replace('|', '\\|').replace('\n', ' ')
    if m.get('origin'):
        m['summary'] = '(%s) %s' % (m['origin'], m.get('summary', ''))
    rows.append('| `%s` — %s | %s | %s | %s |' % (d, esc(m.get('summary', ''))[:420], esc(m.get('needs', ''))[:360],
                                                 ', '.join(m.get('caught_by', [])) or '**missed**', esc(m.get('detection', ''))[:420]))
pend = sorted(x for x in os.listdir(V + '/seeded/_pending')) if os.path.isdir(V + '/seeded/_pending') else []
s = open(V + '/DESIGN.md').read()
a = s.index('### 9.3 Seeded changes')
m = re.search(r'\n### 9\.4 |\n## 1\d\. |\Z', s[a + 10:])
b = a + 10 + m.start()
new = '''### 9.3 Seeded changes (`/verif/seeded/<name>/`) and which check catches them

Written by sub-agents that saw only the property text and a scratch worktree of `/repo` (nothing
from `/verif`); each was confirmed by `tools/seedtest.sh` on the current `/repo` HEAD (406 tests
pass with the patch, the demonstration fails with it and passes without) before it was kept, and
the replay of the reported violation was re-run on the mutant (violated) and on the clean tree
(holds).  "first run" notes record where a check had to be strengthened because it only reported a
broken tie without a failing input.  Unconfirmed or not yet checkable changes wait in
`seeded/_pending/` (%s).

After every batch of `fix:` commits the kept changes are swept again (`tools/seedall.sh`, last full sweep after the
76th fix commit: every change confirmed and caught again); patches whose hunk a fix had touched are re-based by hand
keeping their intent, the previous file stays next to them as `patch.before-rebase*.diff`.  Rounds: 1-3b early
changes, 4 "multi-step history", 5 "re-open a repaired defect for some inputs", 6 "narrow value class / boundary /
two features together / one of several equivalent paths", 7 "glue: optional parameters, alternative argument forms,
second element, state that survives an exception, ordering of options" (`origin` in meta.json).

| seeded change | needs | caught by | how |
|---------------|-------|-----------|-----|
%s
''' % (', '.join(pend) or 'none', '\n'.join(rows))
outside = []
od = V + '/seeded/_outside'
if os.path.isdir(od):
    for d in sorted(os.listdir(od)):
        mp = od + '/' + d + '/meta.json'
        if os.path.exists(mp):
            mm = json.load(open(mp))
            outside.append('| `%s` — %s | %s |' % (d, esc(mm.get('summary', ''))[:420], esc(mm.get('outside', ''))[:500]))
if outside:
    new += '''
Seeded changes set aside in `seeded/_outside/` — confirmed (tests green, demonstration fails with the patch), but what
they need lies outside the quantifier of every property, so no check claims them; they are listed so that the limit is
visible:

| seeded change | why no check covers it |
|---------------|------------------------|
%s
''' % '\n'.join(outside)
open(V + '/DESIGN.md', 'w').write(s[:a] + new + s[b:])
print(len(rows), 'rows')
